"""labsim - deterministic simulation with fault injection for labella.py.

See /verif/DESIGN.md.  Nothing in this package constructs a labella object at
import time; the library under test is imported from VERIF_REPO (default /repo)
by labsim.util.import_labella().
"""
