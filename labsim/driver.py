# -*- coding: utf-8 -*-
"""Batch driver: seeds -> plans -> isolated runs -> oracles -> shrink ->
replay file -> fresh-process confirmation -> evidence."""

import concurrent.futures
import importlib
import json
import multiprocessing
import os
import random
import subprocess
import sys
import time

from . import shrink as shrink_mod
from .util import HarnessError, REPO, VERIF, derive_seed, digest, h64, repo_rev

SIMS = {
    "zone": "labsim.sims.zone",
    "scale": "labsim.sims.scale",
    "engine": "labsim.sims.engine",
    "timeline": "labsim.sims.timeline",
}

PROP2SIM = {"C18": "zone", "C12": "scale", "C06": "engine", "C04": "engine", "C10": "timeline"}


def load_sim(name):
    return importlib.import_module(SIMS[name])


# ------------------------------------------------------------------ workers

_worker_ready = False


def _init_worker():
    global _worker_ready
    from .util import import_labella, prepare_reimport

    import_labella()
    prepare_reimport()
    _worker_ready = True


def make_plan(sim, base_seed, index, tier):
    seed = derive_seed(base_seed, sim.NAME, index)
    rng = random.Random(seed)
    plan = sim.gen_plan(rng, tier)
    plan["seed"] = seed
    return plan


def _merge_counters(dst, src):
    for k, v in src.items():
        dst[k] = dst.get(k, 0) + v


def _task(sim_name, base_seed, start, count, tier, want_digests):
    """Executed in a worker: runs `count` consecutive runs of a batch."""
    if not _worker_ready:
        _init_worker()
    sim = load_sim(sim_name)
    out = {
        "runs": 0,
        "counters": {},
        "sets": {},
        "violations": [],
        "samples": [],
        "digests": [],
        "nontrivial_hashes": [],
        "first_seed": None,
        "last_seed": None,
    }
    for i in range(start, start + count):
        plan = make_plan(sim, base_seed, i, tier)
        res = sim.execute(plan)
        out["runs"] += 1
        if out["first_seed"] is None:
            out["first_seed"] = plan["seed"]
        out["last_seed"] = plan["seed"]
        _merge_counters(out["counters"], res.get("counters", {}))
        for k, vals in res.get("sets", {}).items():
            s = out["sets"].setdefault(k, set())
            s.update(vals)
        if res.get("nontrivial"):
            out["nontrivial_hashes"].append(h64(sim.plan_signature(plan)))
        if want_digests:
            out["digests"].append([i, res["digest"]])
        for v in res.get("violations", []):
            if len(out["violations"]) < 4:
                out["violations"].append({"index": i, "plan": plan, "violation": v})
            c = "violations_seen:" + v["property"]
            out["counters"][c] = out["counters"].get(c, 0) + 1
        if len(out["samples"]) < 1 and res.get("nontrivial"):
            out["samples"].append({"index": i, "plan": plan, "digest": res["digest"]})
    out["sets"] = {k: sorted(v) for k, v in out["sets"].items()}
    return out


class Batch(object):
    def __init__(self):
        self.runs = 0
        self.counters = {}
        self.sets = {}
        self.violations = []
        self.samples = []
        self.digests = {}
        self.nontrivial = set()
        self.first_seed = None
        self.last_seed = None
        self.wall = 0.0
        self.capped_by = "runs"

    def absorb(self, out):
        self.runs += out["runs"]
        _merge_counters(self.counters, out["counters"])
        for k, vals in out["sets"].items():
            self.sets.setdefault(k, set()).update(vals)
        self.violations.extend(out["violations"])
        if len(self.samples) < 3:
            self.samples.extend(out["samples"][: 3 - len(self.samples)])
        for i, d in out["digests"]:
            self.digests[i] = d
        self.nontrivial.update(out["nontrivial_hashes"])
        if out["first_seed"] is not None:
            if self.first_seed is None:
                self.first_seed = out["first_seed"]
            self.last_seed = out["last_seed"]


def run_batch(sim_name, base_seed, tier, max_runs, wall_cap, workers, chunk=25,
              want_digests=False, stop_on_violation_of=None, start_index=0, hard_wall=None):
    """Run up to max_runs runs (indices start_index..), stop submitting at
    wall_cap seconds.  Results are absorbed in index order.  Chunks still in
    flight hard_wall seconds after the start are abandoned (their runs simply
    do not count): code under test that hangs must not turn a check into a
    wall-clock kill."""
    t0 = time.monotonic()
    batch = Batch()
    ctx = multiprocessing.get_context("fork")
    next_start = start_index
    end_index = start_index + max_runs
    pending = {}
    done_chunks = {}
    absorb_next = start_index
    stop = False
    found_violation = False
    with concurrent.futures.ProcessPoolExecutor(
        max_workers=workers, mp_context=ctx, initializer=_init_worker
    ) as ex:
        try:
            while True:
                while (not stop and next_start < end_index
                       and len(pending) < workers * 3):
                    n = min(chunk, end_index - next_start)
                    fut = ex.submit(_task, sim_name, base_seed, next_start, n, tier, want_digests)
                    pending[fut] = next_start
                    next_start += n
                if not pending:
                    break
                done, _ = concurrent.futures.wait(
                    list(pending), timeout=1.0,
                    return_when=concurrent.futures.FIRST_COMPLETED)
                for fut in done:
                    st = pending.pop(fut)
                    done_chunks[st] = fut.result()  # re-raises HarnessError
                while absorb_next in done_chunks:
                    out = done_chunks.pop(absorb_next)
                    batch.absorb(out)
                    absorb_next += out["runs"]
                    if stop_on_violation_of and any(
                        v["violation"]["property"] in stop_on_violation_of
                        for v in batch.violations
                    ):
                        stop = True
                        found_violation = True
                if not stop and time.monotonic() - t0 > wall_cap:
                    stop = True
                    batch.capped_by = "wall"
                abandon = hard_wall is not None and time.monotonic() - t0 > hard_wall
                if abandon and not stop:
                    stop = True
                    batch.capped_by = "wall"
                if stop:
                    # runs not yet started are dropped; only a contiguous
                    # prefix of run indices is ever absorbed
                    for fut in list(pending):
                        if fut.cancel():
                            pending.pop(fut)
                    if abandon and pending:
                        batch.capped_by = "wall (chunks in flight abandoned at %.0fs)" % hard_wall
                    if (found_violation or abandon) and pending:
                        # a violation is in hand: do not wait for in-flight
                        # chunks (under a hanging mutant they can take minutes)
                        for proc in list(getattr(ex, "_processes", {}).values()):
                            try:
                                proc.terminate()
                            except Exception:
                                pass
                        pending.clear()
                        break
        except BaseException:
            for fut in pending:
                fut.cancel()
            raise
    while absorb_next in done_chunks:
        out = done_chunks.pop(absorb_next)
        batch.absorb(out)
        absorb_next += out["runs"]
    batch.wall = time.monotonic() - t0
    return batch


# ------------------------------------------------------------------ shrink / replay

def _violation_matches(res, prop, vclass):
    for v in res.get("violations", []):
        if v["property"] == prop and v["class"] == vclass:
            return v
    return None


def minimise(sim, plan, violation, max_evals, deadline=None):
    prop, vclass = violation["property"], violation["class"]

    def still_fails(cand):
        try:
            res = sim.execute(cand)
        except HarnessError:
            return False
        return _violation_matches(res, prop, vclass) is not None

    best, evals = shrink_mod.shrink_plan(
        plan, still_fails, lambda p: sim.simplifiers(p, prop),
        well_formed=getattr(sim, "well_formed", None), max_evals=max_evals, deadline=deadline)
    res = sim.execute(best)
    v = _violation_matches(res, prop, vclass)
    if v is None:  # cannot happen if execution is deterministic
        raise HarnessError("minimised plan no longer fails: non-deterministic execution?")
    return best, v, evals


def write_replay(sim, prop, plan, violation, original_ops):
    rdir = os.environ.get("LABSIM_REPLAY_DIR", os.path.join(VERIF, "replays"))
    os.makedirs(rdir, exist_ok=True)
    path = os.path.join(rdir, "%s-%d.json" % (prop, plan.get("seed", 0)))
    doc = {
        "property": prop,
        "sim": sim.NAME,
        "seed": plan.get("seed", 0),
        "plan": plan,
        "violation": violation,
        "original_ops": original_ops,
        "repo_rev": repo_rev(),
    }
    with open(path, "w") as f:
        json.dump(doc, f, indent=1, sort_keys=True)
        f.write("\n")
    return path


def replay_file(path):
    """Execute a replay file in this (fresh) process.  Returns (reproduced,
    text)."""
    from .util import import_labella

    import_labella()
    with open(path) as f:
        doc = json.load(f)
    sim = load_sim(doc["sim"])
    res = sim.execute(doc["plan"])
    want = doc["violation"]
    got = _violation_matches(res, doc["property"], want["class"])
    if got is None:
        return False, "NOT REPRODUCED property=%s class=%s (violations now: %s)" % (
            doc["property"], want["class"],
            [(v["property"], v["class"]) for v in res.get("violations", [])])
    same_step = got.get("step") == want.get("step")
    return True, "REPRODUCED property=%s class=%s step=%s%s\n%s" % (
        doc["property"], got["class"], got.get("step"),
        "" if same_step else " (recorded step %s)" % want.get("step"),
        json.dumps(got.get("detail"), indent=1, sort_keys=True)[:4000])


def confirm_in_fresh_process(path):
    env = dict(os.environ)
    env["PYTHONHASHSEED"] = "0"
    p = subprocess.run(
        [sys.executable, os.path.join(VERIF, "bin", "labsim"), "replay", path],
        capture_output=True, text=True, env=env, timeout=600)
    return p.returncode == 1 and "REPRODUCED" in p.stdout, p.stdout + p.stderr


def cold_run(sim_name, plan):
    """The run part of a plan executed directly in a fresh interpreter.  The
    context is canonical: fixed environment (the interpreter copies its
    environment into objects at start-up, which shifts every later allocation),
    fixed argv, hash seed 0, address-space randomisation off (set by exec-run)."""
    env = {"PATH": "/usr/bin:/bin", "PYTHONHASHSEED": "0", "VERIF_REPO": REPO}
    p = subprocess.run([sys.executable, os.path.join(VERIF, "bin", "labsim"), "exec-run", sim_name],
                       input=json.dumps(plan, sort_keys=True), capture_output=True, text=True, env=env,
                       timeout=600, cwd="/")
    if p.returncode != 0:
        raise HarnessError("exec-run failed: " + (p.stdout + p.stderr)[-2000:])
    return json.loads(p.stdout.strip().splitlines()[-1])


def cold_reference(sim_name, job, hashseed=0):
    """The same reference computation in a cold interpreter (no fork from a
    pristine image): shows fork-from-pristine == fresh process."""
    env = dict(os.environ)
    env["PYTHONHASHSEED"] = str(hashseed)
    p = subprocess.run([sys.executable, os.path.join(VERIF, "bin", "labsim"), "exec-ref", sim_name],
                       input=json.dumps(job), capture_output=True, text=True, env=env, timeout=600)
    if p.returncode != 0:
        raise HarnessError("exec-ref failed: " + (p.stdout + p.stderr)[-2000:])
    return json.loads(p.stdout.strip().splitlines()[-1])


def _cold_search(sim, prop, vclass, plan, base_seed, tier, index, max_plans=1500, wall=120):
    """Execute plans cold (16 at a time) until one shows a violation of the given
    class.  Returns (plan with cold=True, violation) or (None, None)."""
    import concurrent.futures as cf

    def attempt(p):
        p = dict(p)
        p["cold"] = True
        try:
            res = sim.execute(p)
        except HarnessError:
            return None
        v = _violation_matches(res, prop, vclass)
        return (p, v) if v is not None else None

    t0 = time.monotonic()
    cands = [plan] + [make_plan(sim, base_seed, i, tier) for i in range(0, max_plans) if i != index]
    with cf.ThreadPoolExecutor(max_workers=16) as ex:
        pos = 0
        while pos < len(cands) and time.monotonic() - t0 < wall:
            chunk = cands[pos:pos + 32]
            pos += 32
            for got in ex.map(attempt, chunk):
                if got is not None:
                    p, v = got
                    v = dict(v)
                    v["detail"] = dict(v.get("detail") or {}, note="depends on memory-address re-use: reproduces only "
                                       "when the run executes directly in a fresh interpreter (plan.cold); not minimised")
                    return p, v
    return None, None


# ------------------------------------------------------------------ known findings

def load_findings():
    path = os.path.join(VERIF, "known_findings.json")
    if not os.path.exists(path):
        return {"known": [], "fixed": []}
    with open(path) as f:
        return json.load(f)


def match_known(findings, prop, violation, plan, sim):
    """A finding is matched only by its specific signature: property, violation
    class and the minimal plan's signature as computed by the sim."""
    sig = sim.finding_signature(plan, violation)
    for k in findings.get("known", []):
        if k["property"] == prop and k["signature"] == sig:
            return k
    return None


# ------------------------------------------------------------------ check

def check(prop, tier, base_seed, workers=None):
    t_start = time.monotonic()
    from .util import import_labella

    import_labella()  # the main process shrinks and replays: same tree as the workers
    sim_name = PROP2SIM[prop]
    sim = load_sim(sim_name)
    if workers is None:
        workers = int(os.environ.get("LABSIM_WORKERS", str(min(16, os.cpu_count() or 1))))
    budget = sim.BUDGET[tier]
    max_runs = int(os.environ.get("LABSIM_MAX_RUNS", budget["runs"]))
    wall_cap = float(os.environ.get("LABSIM_WALL_CAP", budget["wall"]))
    print("labsim check property=%s sim=%s tier=%s VERIF_SEED=%d repo=%s rev=%s workers=%d max_runs=%d wall_cap=%.0fs"
          % (prop, sim_name, tier, base_seed, REPO, repo_rev(), workers, max_runs, wall_cap))
    sys.stdout.flush()
    # 0. minimal replays of defects that were repaired ("fixed:" entries
    #    suppress nothing): if one of them fails again it is reported at once.
    regress_hits = []
    regress_n = 0
    rdir = os.path.join(VERIF, "regressions")
    if os.path.isdir(rdir):
        for fn in sorted(os.listdir(rdir)):
            if not fn.startswith(prop + "-") or not fn.endswith(".json"):
                continue
            with open(os.path.join(rdir, fn)) as f:
                doc = json.load(f)
            regress_n += 1
            res = sim.execute(doc["plan"])
            hit = [v for v in res.get("violations", []) if v["property"] == prop]
            if hit:
                regress_hits.append({"path": os.path.join(rdir, fn), "violation": hit[0], "plan": doc["plan"],
                                     "shrink_evals": 0, "ops_before": len(doc["plan"]["ops"]),
                                     "ops_after": len(doc["plan"]["ops"])})
    print("regression replays: %d executed, %d failing" % (regress_n, len(regress_hits)))
    # 0b. known findings (genuine defects recorded, not repaired): each has a minimal replay
    #     that is executed on every run; while it still fails in the recorded way the
    #     KNOWN-FINDING line is printed; a different violation on it is reported.
    findings = load_findings()
    known_lines = []
    for k in findings.get("known", []):
        if k["property"] != prop or not k.get("replay"):
            continue
        with open(os.path.join(VERIF, k["replay"])) as f:
            doc = json.load(f)
        res = sim.execute(doc["plan"])
        hit = [v for v in res.get("violations", []) if v["property"] == prop]
        if hit and sim.finding_signature(doc["plan"], hit[0]) == k["signature"]:
            known_lines.append("KNOWN-FINDING: property=%s %s" % (prop, k["what"]))
        elif hit:
            regress_hits.append({"path": os.path.join(VERIF, k["replay"]), "violation": hit[0], "plan": doc["plan"],
                                 "shrink_evals": 0, "ops_before": len(doc["plan"]["ops"]),
                                 "ops_after": len(doc["plan"]["ops"])})
        else:
            print("known finding no longer reproduces (replay %s passes)" % k["replay"])
    hard_wall = wall_cap + max(45.0, wall_cap / 4)
    # minimisation is a courtesy, the verdict is not: no shrink evaluation starts later than this
    shrink_deadline = t_start + wall_cap + max(70.0, wall_cap / 2)
    if regress_hits:
        # the verdict is settled: say so now (a tree that fails its regression replays may
        # well hang elsewhere), and spend only a token budget on the batch
        for r in regress_hits:
            print("VIOLATION property=%s replay=%s" % (prop, r["path"]))
        sys.stdout.flush()
        wall_cap, hard_wall = min(wall_cap, 10.0), 25.0
    batch = run_batch(sim_name, base_seed, tier, max_runs, wall_cap, workers,
                      chunk=budget.get("chunk", 25), stop_on_violation_of=[prop], hard_wall=hard_wall)
    mine = [v for v in batch.violations if v["violation"]["property"] == prop]
    reported = list(regress_hits)
    seen_classes = set()
    for item in mine:
        vclass = item["violation"]["class"]
        if vclass in seen_classes:
            continue
        seen_classes.add(vclass)
        if len(seen_classes) > 3:
            break
        plan = item["plan"]
        best = v = path = None
        evals = 0
        ok = False
        has_cold = sim.NAME in ("engine", "timeline", "scale")
        cands = []
        first = sim.execute(plan)
        if _violation_matches(first, prop, vclass) is not None:
            # reproducible in this process: minimise here
            try:
                mbest, mv, evals = minimise(sim, plan, item["violation"], budget.get("shrink_evals", 400),
                                            deadline=shrink_deadline)
                cands.append((mbest, mv))
            except HarnessError:
                pass  # flaky in this process: address-dependent, handled below
        cands.append((plan, item["violation"]))
        # Confirmation happens in the canonical, exactly repeatable context: a fresh
        # interpreter with address-space randomisation off that executes the run
        # directly ("cold").  A violation that is a function of the plan alone
        # reproduces there as everywhere; one that depends on memory-address re-use
        # (a cache keyed by id() of a dead object) may not - then further runs of the
        # batch are searched cold for the same violation class.
        for cp, cv in cands:
            p2 = dict(cp)
            if has_cold:
                p2["cold"] = True
            path = write_replay(sim, prop, p2, cv, len(plan["ops"]))
            ok, out = confirm_in_fresh_process(path)
            if ok:
                best, v = p2, cv
                break
        if not ok and has_cold:
            evals = 0
            best, v = _cold_search(sim, prop, vclass, plan, base_seed, tier, item["index"])
            if best is not None:
                path = write_replay(sim, prop, best, v, len(best["ops"]))
                ok, out = confirm_in_fresh_process(path)
        if not ok:
            raise HarnessError("violation class=%s of run %d was observed in the batch but could not be reproduced "
                               "in a fresh process:\n%s"
                               % (vclass, item["index"], json.dumps(item["violation"].get("detail"), sort_keys=True)[:1500]))
        k = match_known(findings, prop, v, best, sim)
        if k is not None:
            line = "KNOWN-FINDING: property=%s %s" % (prop, k["what"])
            if line not in known_lines:
                known_lines.append(line)
            try:
                os.unlink(path)
            except OSError:
                pass
            continue
        reported.append({"path": path, "violation": v, "plan": best,
                         "shrink_evals": evals, "ops_before": len(plan["ops"]),
                         "ops_after": len(best["ops"])})
    wall = time.monotonic() - t_start
    ev = build_evidence(sim, prop, tier, base_seed, batch, wall, reported, known_lines)
    ev["coverage"]["regression_replays_executed"] = regress_n
    edir = os.environ.get("LABSIM_EVIDENCE_DIR", os.path.join(VERIF, "evidence"))
    os.makedirs(edir, exist_ok=True)
    with open(os.path.join(edir, prop + ".json"), "w") as f:
        json.dump(ev, f, indent=1, sort_keys=True)
        f.write("\n")
    cov = ev["coverage"]
    print("runs=%d (capped by %s) wall=%.1fs runs_per_hour=%d distinct_nontrivial=%d"
          % (batch.runs, batch.capped_by, wall, cov["runs_per_hour"], cov["distinct_nontrivial"]))
    print("faults fired: " + json.dumps(cov["faults"], sort_keys=True))
    print("probes: " + json.dumps(cov["probes"], sort_keys=True))
    for line in known_lines:
        print(line)
    for r in reported:
        print("violation class=%s step=%s ops %d -> %d (%d shrink evaluations)"
              % (r["violation"]["class"], r["violation"].get("step"),
                 r["ops_before"], r["ops_after"], r["shrink_evals"]))
        print(json.dumps(r["violation"].get("detail"), sort_keys=True)[:1500])
        print("  (replay: bin/labsim replay %s   readable form: bin/labsim explain %s)" % (r["path"], r["path"]))
        if not any(r is h for h in regress_hits):  # those were printed at once
            print("VIOLATION property=%s replay=%s" % (prop, r["path"]))
    sys.stdout.flush()
    if reported:
        return 1
    if batch.runs == 0:
        raise HarnessError("no run completed")
    print("OK property=%s held on %d simulated runs" % (prop, batch.runs))
    return 0


def build_evidence(sim, prop, tier, base_seed, batch, wall, reported, known_lines):
    c = batch.counters
    faults = {}
    probes = {}
    other = {}
    for k, v in sorted(c.items()):
        if k.startswith("fault:"):
            kind, what = k[6:].rsplit(":", 1)
            faults.setdefault(kind, {})[what] = v
        elif k.startswith("probe:"):
            probes[k[6:]] = v
        else:
            other[k] = v
    for p in getattr(sim, "PROBES", []):
        probes.setdefault(p, 0)
    for kind in getattr(sim, "FAULT_KINDS", []):
        faults.setdefault(kind, {"configured": 0, "fired": 0})
    distinct = {k: len(v) for k, v in sorted(batch.sets.items())}
    samples = []
    for s in batch.samples[:2]:
        samples.append({"run_index": s["index"], "seed": s["plan"]["seed"],
                        "plan": s["plan"], "event_log_digest": s["digest"]})
    if not samples:
        samples.append({"note": "no nontrivial run completed"})
    cov = {
        "evaluations": batch.runs,
        "distinct_nontrivial": len(batch.nontrivial),
        "rule": sim.RULE[prop] if isinstance(sim.RULE, dict) else sim.RULE,
        "samples": samples,
        "sim": sim.NAME,
        "seeds": {"VERIF_SEED": base_seed, "first_run_seed": batch.first_seed,
                  "last_run_seed": batch.last_seed,
                  "derivation": "run i uses sha256('VERIF_SEED:sim:i')[:8]"},
        "runs_per_hour": int(batch.runs / max(batch.wall, 1e-9) * 3600),
        "batch_wall_s": round(batch.wall, 2),
        "capped_by": batch.capped_by,
        "ops_executed": other.get("ops", 0),
        "checked_steps": other.get("checked_steps", 0),
        "faults": faults,
        "probes": probes,
        "distinct": distinct,
        "counters": other,
        "simulated_time": sim.simulated_time(c),
        "components": sim.COMPONENTS,
        "violations_reported": [
            {"class": r["violation"]["class"], "replay": r["path"],
             "ops_before_shrink": r["ops_before"], "ops_after_shrink": r["ops_after"]}
            for r in reported],
        "known_findings_matched": known_lines,
        "repo_rev": repo_rev(),
        "repo": REPO,
    }
    return {
        "property_id": prop,
        "tier": tier,
        "seed": base_seed,
        "level": "exploration",
        "coverage": cov,
        "assumptions": sim.ASSUMPTIONS[prop] if isinstance(sim.ASSUMPTIONS, dict) else sim.ASSUMPTIONS,
        "wall_s": round(wall, 2),
        "violations": len(reported),
    }
