# -*- coding: utf-8 -*-
"""labsim explain <replay.json> - render a replay file as the sequence of
library calls it stands for (pseudo-Python, for the reader; `labsim replay`
is what executes it)."""

import json


def _opts(o):
    return json.dumps(o, sort_keys=True)


def explain(path):
    doc = json.load(open(path))
    plan, sim = doc["plan"], doc["sim"]
    out = ["# property %s  sim=%s  seed=%s  repo_rev=%s" % (doc["property"], sim, doc.get("seed"), doc.get("repo_rev")),
           "# violation: class=%s at step %s" % (doc["violation"]["class"], doc["violation"].get("step"))]
    if sim == "zone":
        out.append("# executed twice in pristine children: TZ=UTC and TZ=%r; outcome lists must be identical" % plan["zone"]["tz"])
        if plan.get("aware") is not None:
            out.append("# every input datetime carries tzinfo UTC%+d min" % plan["aware"])
        for i, op in enumerate(plan["ops"]):
            if op[0] == "iv":
                arg = ", %r" % op[4] if op[2] == "offset" else ""
                call = {"call": "d3_time[%r](%s)" % (op[1], op[3]), "doy": "d3_time['dayOfYear'](%s), week number" % op[3]}.get(
                    op[2], "d3_time[%r].%s(%s%s)" % (op[1], op[2], op[3], arg))
                out.append("%2d: %s" % (i, call))
            elif op[0] == "range":
                out.append("%2d: d3_time[%r].range(%s, %s, %s)" % (i, op[1], op[2], op[3], op[4]))
            elif op[0] == "scale":
                out.append("%2d: s = TimeScale().domain(%s).range(%s)" % (i, op[1], op[2]))
                for so in op[3]:
                    out.append("      s.%s" % {"call": "__call__(%s)", "invert": "invert(%s)", "domain": "domain()%s",
                                                "nice": "nice(%s)", "ticks": "ticks(%s) + tickFormat + positions",
                                                "copy": "copy()%s", "nice_iv": "nice(d3_time[%r], skip)", "clamp": "clamp(%s)", "ticks_iv": "ticks(d3_time[%r], skip)", "deepcopy": "<replaced by copy.deepcopy(s)>%s"}[so[0]]
                               % (so[1] if len(so) > 1 else ""))
            elif op[0] == "timeline":
                out.append("%2d: Timeline%s(%d items, options=%s).export()" % (i, op[1].upper(), len(op[2]), _opts(op[3])))
                for it in op[2]:
                    out.append("      item %s" % _opts(it))
    elif sim == "scale":
        out.append("# pool[0] = LinearScale(); observation mode: %s" % (plan.get("observe", "all"),))
        for i, op in enumerate(plan["ops"]):
            k = op[0]
            if k == "new" and len(op) > 1:
                out.append("%2d: pool.append(LinearScale(%s, %s, None, %s))   # arguments given: %s" % (i, op[2], op[3], op[4], op[6] if len(op) > 6 else "all"))
            elif k == "new":
                out.append("%2d: pool.append(LinearScale())" % i)
            elif k in ("domain_from", "range_from"):
                g = k.split("_")[0]
                out.append("%2d: pool[%d].%s(pool[%d].%s())" % (i, op[1], g, op[2], g))
            elif k == "chain":
                out.append("%2d: pool[%d].domain(%s).range(%s).clamp(%s)" % (i, op[1], op[2], op[3], op[4]))
            elif k == "interp":
                out.append("%2d: pool[%d].interpolate(); .interpolate(d3_interpolate); .rangeRound([0, 1])" % (i, op[1]))
            elif k == "copy":
                out.append("%2d: pool.append(pool[%d].copy())" % (i, op[1]))
            elif k == "bystander":
                out.append("%2d: keep = LinearScale(<end points of pool[%d]>, interpolate=<rounding>, clamp=<same>)   # not judged" % (i, op[1]))
            elif k == "deepcopy":
                out.append("%2d: pool.append(copy.deepcopy(pool[%d]))" % (i, op[1]))
            elif k == "copy_chain":
                out.append("%2d: pool[%d] = pool[%d].copy().copy()... (%d generations)" % (i, op[1], op[1], op[2]))
            elif k == "nudge":
                out.append("%2d: pool[%d].domain(<its domain with end %d moved by a factor 1%+g>)" % (i, op[1], op[2] % 2, op[3]))
            elif k == "drop":
                out.append("%2d: del pool[%d]" % (i, op[1]))
            elif k in ("bad_nice", "bad_domain"):
                out.append("%2d: pool[%d].%s   # rejected call" % (i, op[1], "nice(0)" if k == "bad_nice" else "domain(['x', 1])"))
            elif k == "foreign":
                out.append("%2d: <a small %s timeline is constructed and exported: unrelated library activity>" % (i, op[2]))
            elif k == "range_reuse":
                out.append("%2d: lst[:] = %s; pool[%d].range(lst)   # the list passed earlier, edited in place" % (i, op[2], op[1]))
            else:
                out.append("%2d: pool[%d].%s(%s)" % (i, op[1], {"tickformat": "tickFormat"}.get(k, k),
                                                     ", ".join(repr(x) for x in op[2:])))
    elif sim == "engine":
        for si, s in enumerate(plan["sets"]):
            out.append("# label set %d (idealPos, width): %s" % (si, s))
        for i, op in enumerate(plan["ops"]):
            k = op[0]
            if k == "new_engine":
                out.append("%2d: engine[%d] = Force(%s)" % (i, op[1], _opts(op[2])))
            elif k in ("config", "bad_config"):
                out.append("%2d: engine[%d].set_options(%s)%s" % (i, op[1], _opts(op[2]), "   # rejected call" if k == "bad_config" else ""))
            elif k == "set_labels":
                out.append("%2d: engine[%d].nodes(<labels of set %d: %s>)" % (i, op[1], op[2], op[3]))
            elif k == "compute":
                out.append("%2d: engine[%d].compute()   # judged: C06 vs fresh engine, C04 on getLayers()" % (i, op[1]))
            elif k == "abort_compute":
                out.append("%2d: engine[%d].compute()   # FAULT: %s raised at %.1f%% of the line events in scope %s%s" % (
                    i, op[1], op[4] if len(op) > 4 else "SimAbort", op[2] / 10000.0, op[3] if len(op) > 3 else "any",
                    (" (of executed function no. %d mod count in that scope)" % op[5]) if len(op) > 5 else ""))
            elif k == "stack_compute":
                out.append("%2d: engine[%d].compute()   # FAULT: recursion limit = depth + %d" % (i, op[1], op[2]))
            elif k == "write_option":
                out.append("%2d: engine[%d].options[%r] = %r   # written directly, no set_options()" % (i, op[1], op[2], op[3]))
            elif k == "forget":
                out.append("%2d: the caller drops its references to the labels of set %d" % (i, op[1]))
            elif k == "drop_engine":
                out.append("%2d: del engine[%d]   # the labels are kept" % (i, op[1]))
            elif k == "rewidth":
                out.append("%2d: labels of set %d are re-measured: new widths on the existing objects" % (i, op[1]))
            elif k == "inspect":
                out.append("%2d: read-only inspection of engine[%d] (getLayers, metrics, node paths, clone, repr)" % (i, op[1]))
            elif k == "stale":
                out.append("%2d: plant stale %s on the labels of set %d" % (i, op[2], op[1]))
            elif k == "distribute":
                out.append("%2d: Distributor(%s).distribute(<%s nodes of set %d>)" % (i, _opts(op[2]), op[3], op[1]))
    elif sim == "timeline":
        for si, s in enumerate(plan["slots"]):
            out.append("# slot %d: %s, scale=%s, %d items, options=%s" % (si, s["backend"], s["scale"], len(s["items"]), _opts(s["options"])))
        for i, op in enumerate(plan["ops"]):
            k = op[0]
            f = ""
            fault = (op[4] if k == "export_file" else (op[2] if len(op) > 2 and isinstance(op[2], dict) and "kind" in op[2] else None))
            if fault:
                f = "   # FAULT: %s" % _opts(fault)
            if k == "construct":
                out.append("%2d: tl[%d] = Timeline(<spec of slot %d>)%s" % (i, op[1], op[1], f))
            elif k == "export":
                out.append("%2d: tl[%d].export()%s   # judged against the same spec alone in a fresh process" % (i, op[1], f))
            elif k == "export_file":
                out.append("%2d: tl[%d].export(%r%s)%s" % (i, op[1], op[2], ", build_pdf=True" if op[3] else "", f))
            elif k == "replace":
                out.append("%2d: slot %d gets a new spec: %s" % (i, op[1], _opts(op[2])[:300]))
            elif k == "tweak":
                out.append("%2d: tl[%d].options[%r] = %r" % (i, op[1], op[2], op[3]))
            elif k == "poke":
                out.append("%2d: tl[%d]: helpers called and attributes read (get_nodes, compute, timePos, scale getters, ticks)" % (i, op[1]))
            elif k == "clock_advance":
                out.append("%2d: simulated clock += %d s" % (i, op[1]))
    out.append("# detail: " + json.dumps(doc["violation"].get("detail"), sort_keys=True)[:1200])
    return "\n".join(out)
