# -*- coding: utf-8 -*-
"""Run isolation: every run and every reference executes in a child fork()ed
from a pristine image of the worker (labella imported, nothing constructed).

A child that dies, hangs or raises outside the simulated workload is a
*harness error*; it is never turned into a VIOLATION and never into exit 0.
"""

import faulthandler
import json
import os
import select
import signal
import sys
import time
import traceback

from .util import HarnessError

CHILD_TIMEOUT = float(os.environ.get("LABSIM_CHILD_TIMEOUT", "120"))


def run_isolated(fn, arg, timeout=None):
    """Execute fn(arg) in a forked child; return its JSON-able result."""
    if timeout is None:
        timeout = CHILD_TIMEOUT
    r, w = os.pipe()
    sys.stdout.flush()
    sys.stderr.flush()
    pid = os.fork()
    if pid == 0:
        code = 0
        try:
            os.close(r)
            try:
                faulthandler.dump_traceback_later(timeout + 5, exit=True)
            except Exception:
                pass
            try:
                res = {"ok": fn(arg)}
            except BaseException:
                res = {"harness_error": traceback.format_exc()}
                code = 3
            data = json.dumps(res).encode()
            off = 0
            while off < len(data):
                off += os.write(w, data[off : off + 65536])
            os.close(w)
        except BaseException:
            code = 4
        finally:
            os._exit(code)
    os.close(w)
    chunks = []
    deadline = time.monotonic() + timeout
    timed_out = False
    try:
        while True:
            left = deadline - time.monotonic()
            if left <= 0:
                timed_out = True
                break
            rl, _, _ = select.select([r], [], [], min(left, 5.0))
            if not rl:
                continue
            b = os.read(r, 1 << 20)
            if not b:
                break
            chunks.append(b)
    finally:
        os.close(r)
        if timed_out:
            try:
                os.kill(pid, signal.SIGKILL)
            except ProcessLookupError:
                pass
        _, status = os.waitpid(pid, 0)
    if timed_out:
        raise HarnessError("child timed out after %.0fs" % timeout)
    raw = b"".join(chunks)
    if not raw:
        raise HarnessError("child died without a result (status %r)" % (status,))
    try:
        res = json.loads(raw.decode())
    except Exception as e:
        raise HarnessError("child result unreadable: %r" % (e,))
    if "harness_error" in res:
        raise HarnessError("child raised:\n" + res["harness_error"])
    return res["ok"]
