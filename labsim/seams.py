# -*- coding: utf-8 -*-
"""The seams the simulator owns (DESIGN.md section 3.3).  No repo change is
needed for any of them: they are reached by tzset(), by rebinding module
attributes of labella.timeline / labella.tex inside a forked child, by
sys.settrace and by the recursion limit.
"""

import datetime as _real_datetime
import errno
import os
import signal
import subprocess as _real_subprocess
import sys
import time
import types

from .util import REPO, sha


# ---------------------------------------------------------------- S1: zone

def set_tz(tz):
    os.environ["TZ"] = tz
    time.tzset()


def dst_probe(dt, stats):
    """Measure (not assume) whether a naive datetime lies in a skipped or a
    repeated local hour of the zone currently in force."""
    try:
        ts = dt.replace(fold=0).timestamp()
        back = _real_datetime.datetime.fromtimestamp(ts)
        if back.replace(fold=0) != dt.replace(fold=0):
            stats["dst_gap_touched"] = stats.get("dst_gap_touched", 0) + 1
            return "gap"
        if dt.replace(fold=1).timestamp() != ts:
            stats["dst_fold_touched"] = stats.get("dst_fold_touched", 0) + 1
            return "fold"
    except (OverflowError, OSError, ValueError):
        pass
    return None


# ---------------------------------------------------------------- S2: clock

class SimClock(object):
    """Simulated wall clock.  Naive, zone free.  Either *live* (advances by
    tick_s seconds per reading; readings are recorded) or *replaying* a
    recorded list of readings (used by reference executions, so that the clock
    is a controlled input and never a cause of difference)."""

    def __init__(self, start_iso=None, tick_s=0.0, replay=None):
        self.now = (
            _real_datetime.datetime.fromisoformat(start_iso) if start_iso else None
        )
        self.tick = _real_datetime.timedelta(seconds=tick_s)
        self.replay = list(replay) if replay is not None else None
        self.readings = []

    def advance(self, seconds):
        self.now = self.now + _real_datetime.timedelta(seconds=seconds)

    def today(self):
        if self.replay is not None:
            if not self.replay:
                raise RuntimeError("labsim: clock replay exhausted")
            iso = self.replay.pop(0)
            self.readings.append(iso)
            return _real_datetime.date.fromisoformat(iso)
        d = self.now.date()
        self.readings.append(d.isoformat())
        self.now = self.now + self.tick
        return d


class _ShimDateMeta(type):
    def __instancecheck__(cls, inst):
        return isinstance(inst, _real_datetime.date)

    def __subclasscheck__(cls, sub):
        return issubclass(sub, _real_datetime.date)


def make_datetime_shim(clock):
    """A stand-in for the `datetime` module as seen by labella.timeline."""

    class date(metaclass=_ShimDateMeta):
        min = _real_datetime.date.min
        max = _real_datetime.date.max

        def __new__(cls, *a, **k):
            return _real_datetime.date(*a, **k)

        @staticmethod
        def today():
            return clock.today()

        @staticmethod
        def fromisoformat(s):
            return _real_datetime.date.fromisoformat(s)

    ns = types.SimpleNamespace(
        date=date,
        datetime=_real_datetime.datetime,
        time=_real_datetime.time,
        timedelta=_real_datetime.timedelta,
        timezone=_real_datetime.timezone,
    )
    return ns


def install_clock(clock):
    """Put the simulated clock behind every name through which
    labella.timeline can reach date.today()."""
    import types as _types

    import labella.timeline as tl

    shim = make_datetime_shim(clock)
    if isinstance(getattr(tl, "datetime", None), _types.ModuleType):
        tl.datetime = shim                      # `import datetime`
    if getattr(tl, "date", None) is _real_datetime.date:
        tl.date = shim.date                     # `from datetime import date`


# ---------------------------------------------------------------- S3: files

class _MemFile(object):
    """A file of the in-memory file system with the usual mode semantics
    (r, w, a, x, +; text or binary), a position, seek/tell/truncate, and the
    write fault point."""

    def __init__(self, fs, path, mode):
        self.fs = fs
        self.path = path
        self.mode = mode
        self.binary = "b" in mode
        self.closed = False
        empty = b"" if self.binary else ""
        exists = path in fs.files
        if "x" in mode and exists:
            raise FileExistsError(errno.EEXIST, "File exists (simfs)", path)
        if "r" in mode and not exists:
            raise FileNotFoundError(errno.ENOENT, "No such file (simfs)", path)
        if "w" in mode or "x" in mode or ("a" in mode and not exists):
            fs.files[path] = empty
        self.readable = "r" in mode or "+" in mode
        self.writable = any(c in mode for c in "wax+")
        self.append = "a" in mode
        self.pos = len(fs.files[path]) if self.append else 0

    def _data(self):
        d = self.fs.files[self.path]
        if self.binary and isinstance(d, str):
            d = d.encode("utf-8")
        elif not self.binary and isinstance(d, bytes):
            d = d.decode("utf-8", "replace")
        return d

    def write(self, data):
        if not self.writable:
            raise OSError(errno.EBADF, "not writable (simfs)", self.path)
        fault = self.fs.take_fault("write", self.path)
        cur = self._data()
        if self.append:
            self.pos = len(cur)
        if fault is not None:
            # torn write: a prefix reaches the disk, then the error surfaces
            cut = len(data) // 2
            self.fs.files[self.path] = cur[: self.pos] + data[:cut] + cur[self.pos + cut:]
            raise OSError(fault, os.strerror(fault) + " (simfs)", self.path)
        self.fs.files[self.path] = cur[: self.pos] + data + cur[self.pos + len(data):]
        self.pos += len(data)
        self.fs.writes += 1
        return len(data)

    def read(self, n=-1):
        if not self.readable:
            raise OSError(errno.EBADF, "not readable (simfs)", self.path)
        cur = self._data()
        out = cur[self.pos:] if n is None or n < 0 else cur[self.pos: self.pos + n]
        self.pos += len(out)
        return out

    def readlines(self):
        return self.read().splitlines(True)

    def seek(self, off, whence=0):
        base = 0 if whence == 0 else (self.pos if whence == 1 else len(self._data()))
        self.pos = max(0, base + off)
        return self.pos

    def tell(self):
        return self.pos

    def truncate(self, size=None):
        size = self.pos if size is None else size
        self.fs.files[self.path] = self._data()[:size]
        return size

    def flush(self):
        pass

    def close(self):
        self.closed = True

    def __enter__(self):
        return self

    def __exit__(self, *a):
        self.close()
        return False


class MemFS(object):
    """In-memory file system with per-call fault points."""

    def __init__(self):
        self.files = {}
        self.faults = []  # list of [kind, errno] consumed in order by kind
        self.fired = []
        self.writes = 0
        self.tmp_n = 0

    def arm(self, kind, err):
        self.faults.append([kind, err])

    def disarm(self):
        left = self.faults
        self.faults = []
        return left

    def take_fault(self, kind, path):
        for i, f in enumerate(self.faults):
            if f[0] == kind:
                del self.faults[i]
                self.fired.append([kind, f[1], path])
                return f[1]
        return None

    def open(self, path, mode="r", *a, **k):
        path = str(path)
        fault = self.take_fault("open", path)
        if fault is not None:
            raise OSError(fault, os.strerror(fault) + " (simfs)", path)
        return _MemFile(self, path, mode)

    # tempfile / shutil stand-ins ------------------------------------------
    def TemporaryDirectory(self, *a, **k):
        fs = self

        class _TD(object):
            def __enter__(s):
                fs.tmp_n += 1
                s.name = "/simtmp/%d" % fs.tmp_n
                return s.name

            def __exit__(s, *exc):
                for p in [p for p in fs.files if p.startswith(s.name + "/")]:
                    del fs.files[p]
                return False

        return _TD()

    def copy2(self, src, dst):
        fault = self.take_fault("copy", dst)
        if fault is not None:
            raise OSError(fault, os.strerror(fault) + " (simfs)", dst)
        if src not in self.files:
            raise FileNotFoundError(errno.ENOENT, "No such file (simfs)", src)
        self.files[dst] = self.files[src]
        return dst


# ---------------------------------------------------------------- S4: peer

class LatexmkStub(object):
    """Scripted latexmk.  Measures text deterministically from the text
    itself; builds a 'pdf' that is a hash of the source; can be told to fail."""

    def __init__(self, fs):
        self.fs = fs
        self.calls = 0
        self.faults = []  # "exit" | "missing"
        self.fired = []

    def arm(self, kind):
        self.faults.append(kind)

    def disarm(self):
        left = self.faults
        self.faults = []
        return left

    @staticmethod
    def measure(text):
        w = 0.0
        for ch in text:
            w += 3.25 if ch in "iljt.,;:'! " else (8.5 if ch in "mwMW" else 5.5)
        return w, (9.5 if any(c in text for c in "gjpqy") else 7.5)

    def check_output(self, command, stderr=None, **k):
        self.calls += 1
        if self.faults:
            kind = self.faults.pop(0)
            self.fired.append(kind)
            if kind == "missing":
                raise FileNotFoundError(errno.ENOENT, "No such file or directory", "latexmk")
            raise _real_subprocess.CalledProcessError(12, command, output=b"simulated latexmk failure\n")
        fname = command[-1]
        outdir = None
        for c in command:
            if isinstance(c, str) and c.startswith("--outdir="):
                outdir = c[len("--outdir="):]
        src = self.fs.files[fname]
        base = os.path.splitext(os.path.basename(fname))[0]
        marker = "\\settowidth{\\lblwidth}{"
        if marker in src:
            start = src.index(marker) + len(marker)
            end = src.index("}%\n", start)
            text = src[start:end]
            w, h = self.measure(text)
            # like real TeX, the measured size depends on the font size, on the
            # preamble (fonts, packages) and on the engine chosen by the options
            head = src[: src.index("\\begin{document}")] if "\\begin{document}" in src else ""
            first, _, preamble = head.partition("\n")
            pt = 10.0
            for cand in ("8pt", "9pt", "10pt", "11pt", "12pt", "14pt", "17pt", "20pt"):
                if cand in first:
                    pt = float(cand[:-2])
            extra = [c for c in command[1:-1] if isinstance(c, str)
                     and not c.startswith("--outdir=") and c != "--interaction=nonstopmode" and c != "--pdf"]
            tweak = 1.0 + (int(sha(preamble.strip() + "|" + " ".join(extra))[:6], 16) % 9) / 16.0 \
                if (preamble.strip().strip("%") or extra) else 1.0
            w = w * pt / 10.0 * tweak
            h = h * pt / 10.0
            self.fs.files[os.path.join(outdir, base + ".log")] = (
                "This is simulated TeX\nLABELWIDTH: %.5fpt\nLABELHEIGHT: %.5fpt\n" % (w, h)
            )
        else:
            self.fs.files[os.path.join(outdir, base + ".pdf")] = "%PDF-sim " + sha(src)
        return b"simulated latexmk ok\n"


class _PathShim(object):
    """os.path as seen by labella: existence and size questions about simulated
    files are answered by the in-memory file system, everything else is real."""

    def __init__(self, fs):
        self._fs = fs

    def __getattr__(self, name):
        return getattr(os.path, name)

    def exists(self, p):
        return str(p) in self._fs.files or os.path.exists(p)

    def isfile(self, p):
        return str(p) in self._fs.files or os.path.isfile(p)

    def getsize(self, p):
        if str(p) in self._fs.files:
            return len(self._fs.files[str(p)])
        return os.path.getsize(p)


class _OsShim(object):
    def __init__(self, fs):
        self.path = _PathShim(fs)
        self._fs = fs

    def __getattr__(self, name):
        return getattr(os, name)

    def remove(self, p):
        if str(p) in self._fs.files:
            del self._fs.files[str(p)]
        else:
            os.remove(p)

    unlink = remove


def install_fs_and_peer(fs, peer):
    import sys as _sys

    import labella.tex as tex
    import labella.timeline as tl

    shim = _OsShim(fs)
    for name, mod in list(_sys.modules.items()):
        if (name == "labella" or name.startswith("labella.")) and getattr(mod, "os", None) is os:
            mod.os = shim
        if (name == "labella" or name.startswith("labella.")) and mod is not None and "open" not in vars(mod):
            # any labella module that opens files sees the simulated disk
            mod.open = fs.open

    tl.open = fs.open
    tex.open = fs.open
    tex.tempfile = types.SimpleNamespace(TemporaryDirectory=fs.TemporaryDirectory)
    tex.shutil = types.SimpleNamespace(copy2=fs.copy2)
    tex.subprocess = types.SimpleNamespace(
        check_output=peer.check_output,
        STDOUT=_real_subprocess.STDOUT,
        CalledProcessError=_real_subprocess.CalledProcessError,
    )


# ---------------------------------------------------------------- faults in calls

class SimAbort(BaseException):
    """Injected 'the call does not complete' (interrupt at an arbitrary line)."""


class SimTimeout(BaseException):
    """An operation exceeded its wall-clock guard (hang detector)."""


_LABELLA_PREFIX = os.path.join(REPO, "labella") + os.sep


_WITH_EXIT_OFFSETS = {}


def _with_exit_offsets(code):
    """Offsets of the instructions at which CPython re-visits the line of a `with`
    statement in order to call __exit__ (normal exit: three `LOAD_CONST None` and a
    CALL; exceptional exit: PUSH_EXC_INFO, WITH_EXCEPT_START).  A 'line' event fires
    there, but no operation of the program starts there: an exception injected at
    that point would skip __exit__ altogether (a lock is never released), which is
    not what an exception raised *by* a statement does.  Such events are neither
    counted nor used."""
    offs = _WITH_EXIT_OFFSETS.get(code)
    if offs is None:
        import dis

        ins = list(dis.get_instructions(code))
        found = set()
        for i, x in enumerate(ins):
            if x.opname == "PUSH_EXC_INFO" and i + 1 < len(ins) and ins[i + 1].opname == "WITH_EXCEPT_START":
                found.add(x.offset)
            elif (x.opname == "LOAD_CONST" and x.argval is None and i + 3 < len(ins)
                  and ins[i + 1].opname == "LOAD_CONST" and ins[i + 1].argval is None
                  and ins[i + 2].opname == "LOAD_CONST" and ins[i + 2].argval is None
                  and ins[i + 3].opname == "CALL"):
                found.add(x.offset)
        offs = _WITH_EXIT_OFFSETS[code] = frozenset(found)
    return offs


class AbortTracer(object):
    """Raise SimAbort at the k-th line event executed inside labella code
    (optionally only counting lines of one file, or of lambdas)."""

    def __init__(self, k, scope="any", exc=None, func=None):
        self.k = k
        self.scope = scope
        self.exc = exc or SimAbort
        self.func = tuple(func) if func else None  # (file, function): count only its lines
        self.n = 0
        self.fired = False
        self.where = None

    def _global(self, frame, event, arg):
        if frame.f_code.co_filename.startswith(_LABELLA_PREFIX):
            return self._local
        return None

    def _local(self, frame, event, arg):
        if event == "line":
            wx = _with_exit_offsets(frame.f_code)
            if wx and frame.f_lasti in wx:
                return self._local
            if self.func is not None:
                code = frame.f_code
                if code.co_name != self.func[1] or os.path.basename(code.co_filename) != self.func[0]:
                    return self._local
            elif self.scope != "any":
                code = frame.f_code
                if self.scope == "<lambda>":
                    if code.co_name != "<lambda>":
                        return self._local
                elif os.path.basename(code.co_filename) != self.scope:
                    return self._local
            self.n += 1
            if self.n == self.k:
                self.fired = True
                self.where = [
                    os.path.basename(frame.f_code.co_filename),
                    frame.f_code.co_name,
                ]
                raise self.exc()
        return self._local

    def __enter__(self):
        sys.settrace(self._global)
        return self

    def __exit__(self, *exc):
        sys.settrace(None)
        return False


class _CountTracer(AbortTracer):
    """Counts the line events inside labella: all of them and those in scope."""

    def __init__(self, scope):
        AbortTracer.__init__(self, -1, scope)
        self.n_any = 0
        self.per_func = {}

    def _local(self, frame, event, arg):
        if event == "line":
            wx = _with_exit_offsets(frame.f_code)
            if wx and frame.f_lasti in wx:
                return self._local
            self.n_any += 1
            code = frame.f_code
            key = os.path.basename(code.co_filename) + ":" + code.co_name
            self.per_func[key] = self.per_func.get(key, 0) + 1
        return AbortTracer._local(self, frame, event, arg)


def dry_count(fn, scope):
    """How many line events inside labella (in scope, in all) does fn() execute?

    The dry run happens in a fork()ed copy of this process, so it needs nothing
    from the objects involved (no deepcopy) and leaves no trace in this process.
    Returns (n_scope, n_any, {"file:function": n})."""
    from .util import HarnessError
    import json
    import select

    r, w = os.pipe()
    sys.stdout.flush()
    sys.stderr.flush()
    pid = os.fork()
    if pid == 0:
        code = 0
        try:
            os.close(r)
            signal.signal(signal.SIGALRM, signal.SIG_DFL)
            signal.alarm(60)  # a dry run that hangs dies on its own
            tr = _CountTracer(scope)
            try:
                with tr:
                    fn()
            except BaseException:
                sys.settrace(None)
            data = json.dumps([tr.n, tr.n_any, tr.per_func]).encode()
            off = 0
            while off < len(data):
                off += os.write(w, data[off: off + 65536])
            os.close(w)
        except BaseException:
            code = 4
            if os.environ.get("LABSIM_DEBUG_DRY"):
                import traceback

                with open(os.environ["LABSIM_DEBUG_DRY"], "a") as f:
                    f.write(traceback.format_exc() + "\n")
        finally:
            os._exit(code)
    os.close(w)
    data = b""
    try:
        deadline = time.monotonic() + 70
        while True:
            left = deadline - time.monotonic()
            if left <= 0:
                break
            rl, _, _ = select.select([r], [], [], left)
            if not rl:
                break
            b = os.read(r, 4096)
            if not b:
                break
            data += b
    finally:
        os.close(r)
        try:
            os.kill(pid, signal.SIGKILL)
        except ProcessLookupError:
            pass
        os.waitpid(pid, 0)
    try:
        a, b, per_func = json.loads(data.decode())
        return int(a), int(b), per_func
    except Exception:
        raise HarnessError("dry run for an abort point gave no count (%r)" % (data[:200],))


def abort_point(fn, scope, frac, strat=None):
    """Where to inject: returns (k, scope, func) for AbortTracer.

    Plain placement: the k-th line event in scope, k at fraction frac/1e6 of
    the events a dry run counts (uniform over executed lines, so hot loops get
    most aborts).  Stratified placement (strat given): first one of the
    functions the dry run executed in scope (each equally likely, so that code
    a call spends three lines in is interrupted as often as its hot loops),
    then a line event of that function at fraction frac/1e6."""
    total, total_any, per_func = dry_count(fn, scope)
    if total == 0:
        scope = "any"
        total = total_any
    if strat is not None and per_func:
        if scope == "<lambda>":
            funcs = sorted(k for k in per_func if k.endswith(":<lambda>"))
        elif scope != "any":
            funcs = sorted(k for k in per_func if k.startswith(scope + ":"))
        else:
            funcs = sorted(per_func)
        if funcs:
            key = funcs[strat % len(funcs)]
            return 1 + (per_func[key] * frac) // 1000000, scope, key.split(":", 1)
    return 1 + (total * frac) // 1000000, scope, None


def frame_depth():
    d = 0
    f = sys._getframe()
    while f is not None:
        d += 1
        f = f.f_back
    return d


class StackLimit(object):
    """Lower the interpreter's recursion budget to (current depth + frames)."""

    def __init__(self, frames):
        self.frames = frames

    def __enter__(self):
        self.old = sys.getrecursionlimit()
        sys.setrecursionlimit(frame_depth() + self.frames)
        return self

    def __exit__(self, *exc):
        sys.setrecursionlimit(self.old)
        return False


class op_deadline(object):
    """Wall-clock guard around one operation.  It only ever converts a hang
    into an outcome ('timeout'); it never decides what a run does."""

    def __init__(self, seconds):
        self.seconds = seconds

    def _handler(self, signum, frame):
        raise SimTimeout()

    def __enter__(self):
        self.old = signal.signal(signal.SIGALRM, self._handler)
        signal.setitimer(signal.ITIMER_REAL, self.seconds)
        return self

    def __exit__(self, *exc):
        signal.setitimer(signal.ITIMER_REAL, 0)
        signal.signal(signal.SIGALRM, self.old)
        return False


def silence_stdio():
    devnull = os.open(os.devnull, os.O_WRONLY)
    os.dup2(devnull, 1)
    os.close(devnull)
