# -*- coding: utf-8 -*-
"""Self-tests of the machinery (DESIGN.md 3.6, 3.8).

  labsim selftest determinism [n]   every sim: n seeds, 16 workers vs 1 worker vs a fresh
                                    interpreter under another PYTHONHASHSEED; digests must agree
  labsim selftest sensitivity [ids] built-in mutants of /repo in a scratch copy: the property's
                                    quick check must report a violation for each
  labsim selftest tzexec [n]        tzset()-in-forked-child == TZ at process start-up
  labsim selftest cold [n]          cold context == fork context, and repeatable under other environments
  labsim selftest oracles           every clause of the C04 / C12 models fires on a hand-made counter-example
  labsim selftest digests <sim> <n> <workers> <start>   (internal) print digests as JSON
"""

import json
import os
import shutil
import subprocess
import sys
import tempfile
import time

from . import driver
from .util import HarnessError, REPO, VERIF

LABSIM = os.path.join(VERIF, "bin", "labsim")


def _digests(sim, n, workers, start=0):
    b = driver.run_batch(sim, int(os.environ.get("VERIF_SEED", "0") or 0), "quick", n, 3600, workers,
                         chunk=20, want_digests=True, start_index=start)
    if b.runs != n:
        raise HarnessError("determinism batch incomplete: %d of %d" % (b.runs, n))
    return {str(k): v for k, v in sorted(b.digests.items())}


def determinism(argv):
    n = int(argv[0]) if argv else 2000
    n1 = max(50, n // 8)
    ok = True
    summary = []
    for sim in ("zone", "scale", "engine", "timeline"):
        t0 = time.monotonic()
        a = _digests(sim, n, 16)
        b = _digests(sim, n1, 1)
        env = dict(os.environ)
        env["PYTHONHASHSEED"] = "4242"
        p = subprocess.run([sys.executable, LABSIM, "selftest", "digests", sim, str(n), "7", "0"],
                           capture_output=True, text=True, env=env, timeout=3600)
        if p.returncode != 0:
            raise HarnessError("digest subprocess failed: " + p.stderr[-2000:])
        c = json.loads(p.stdout.strip().splitlines()[-1])
        bad_b = [k for k in b if a[k] != b[k]]
        bad_c = [k for k in a if a[k] != c.get(k)]
        print("determinism sim=%s: %d seeds x (16 workers, fresh interpreter PYTHONHASHSEED=4242 / 7 workers), "
              "%d seeds x 1 worker: mismatches %d / %d  [%.0fs]"
              % (sim, n, n1, len(bad_c), len(bad_b), time.monotonic() - t0))
        summary.append({"sim": sim, "mismatches_fresh_interpreter": len(bad_c), "mismatches_single_worker": len(bad_b)})
        if bad_b or bad_c:
            ok = False
            print("  first diverging run indices:", (bad_b + bad_c)[:10])
        sys.stdout.flush()
    print("DETERMINISM " + ("OK" if ok else "FAILED"))
    with open(os.path.join(VERIF, "evidence", "selftest_determinism.json"), "w") as f:
        json.dump({"seeds_per_sim": n, "seeds_single_worker": n1, "ok": ok, "results": summary,
                   "method": "digest of the full event log per run: 16 workers vs fresh interpreter "
                             "(PYTHONHASHSEED=4242, 7 workers) vs 1 worker"}, f, indent=1)
        f.write("\n")
    return 0 if ok else 2


# ---------------------------------------------------------------- sensitivity

MUTANTS = [
    # (id, property, file, old, new, what)
    ("E1", "C06", "labella/force.py",
     "        for node in self._nodes:\n            node.removeStub()\n",
     "",
     "compute() no longer removes stale stubs"),
    ("E2", "C06", "labella/removeOverlap.py",
     "node.parent.currentPos if node.parent else node.idealPos",
     "node.parent.currentPos if node.parent else node.currentPos",
     "layer-0 items are targeted at their stale current position"),
    ("E3", "C06", "labella/distributor.py",
     "        nodes = sorted(nodes, key=lambda x: x.idealPos)\n",
     "        nodes = list(nodes)\n",
     "labels are no longer sorted before layering (input-order dependence)"),
    ("E4", "C06", "labella/distributor.py",
     "        for node in nodes:\n            overlaps = iTree.overlap(node.idealLeft(), node.idealRight())\n",
     "        for node in nodes:\n            if node.overlapCount:\n                continue\n            overlaps = iTree.overlap(node.idealLeft(), node.idealRight())\n",
     "overlap counts are kept from an earlier pass when present"),
    ("E5", "C06", "labella/force.py",
     "        self.distributor.options.update(disOptions)\n",
     "        if not getattr(self, \"_configured\", False):\n            self.distributor.options.update(disOptions)\n            self._configured = True\n",
     "re-configuration no longer reaches the distributor"),
    ("E6", "C04", "labella/distributor.py",
     "                for j in range(i - 1, -1, -1):\n                    stub = stub.createStub(self.options[\"stubWidth\"])\n                    layers[j].append(stub)\n\n        return layers\n\n    def countIdealOverlaps",
     "                for j in range(i - 1, 0, -1):\n                    stub = stub.createStub(self.options[\"stubWidth\"])\n                    layers[j].append(stub)\n\n        return layers\n\n    def countIdealOverlaps",
     "overlap algorithm: stub chains stop one layer short of the axis"),
    ("E7", "C04", "labella/force.py",
     "        self.layers = layers\n",
     "        self.layers, self._pending = getattr(self, \"_pending\", layers), layers\n",
     "getLayers() reports the layering of the previous compute"),
    ("E8", "C04", "labella/node.py",
     "        stub = Node(self.idealPos, width, self.data)\n",
     "        stub = Node(self.currentPos, width, self.data)\n",
     "stubs carry the label's current (possibly stale) position instead of its data position"),
    ("E9", "C04", "labella/distributor.py",
     "            while (\n                len(nodesInCurrentLayer) > 2 and currentLayerWidth > maxWidth\n            ):",
     "            while (\n                len(nodesInCurrentLayer) > 3 and currentLayerWidth > maxWidth\n            ):",
     "greedy removal stops at three labels instead of two (layer over budget with 3 labels)"),
    ("T1", "C10", "labella/timeline.py",
     "        if \"scale\" not in options:\n            self.options[\"scale\"] = DEFAULT_OPTIONS[\"scale\"].copy()\n",
     "",
     "the default scale is shared by all instances again"),
    ("T2", "C10", "labella/timeline.py",
     "    def get_nodes(self):\n        nodes = []\n",
     "    _node_cache = {}\n\n    def get_nodes(self):\n        key = tuple((id(type(self)), it.text, it.width) for it in self.items)\n        if key in Timeline._node_cache:\n            return Timeline._node_cache[key]\n        nodes = Timeline._node_cache.setdefault(key, [])\n",
     "nodes cached on the class, keyed by text and width only"),
    ("T3", "C10", "labella/timeline.py",
     "        self.nodes, self.renderer = self.compute()\n        initWidth, initHeight = (",
     "        if self.nodes is None:\n            self.nodes, self.renderer = self.compute()\n        initWidth, initHeight = (",
     "SVG export reuses the nodes of its first export: unobservable while the options stay as they are, but a later "
     "change of tl.options (TWEAK) is then ignored, so the export depends on history (same verdict as seeded C10-g2)"),
    ("S1", "C12", "labella/scale.py",
     "            list(self._domain),\n            list(self._range),\n",
     "            self._domain,\n            self._range,\n",
     "copy() shares the domain/range lists again"),
    ("S2", "C12", "labella/scale.py",
     "        d3_scale_linearNice(self._domain, m)\n        return self.rescale()\n",
     "        d3_scale_linearNice(self._domain, m)\n        return self\n",
     "nice() forgets to rescale"),
    ("S3", "C12", "labella/scale.py",
     "            self._interpolate,\n            self._clamp,\n        )",
     "            self._interpolate,\n        )",
     "copy() drops the clamp flag"),
    ("S4", "C12", "labella/scale.py",
     "        self._clamp = x\n        return self.rescale()\n",
     "        self._clamp = x\n        return self\n",
     "clamp() forgets to rescale"),
    ("Z1", "C18", "labella/scale.py",
     "        extent = list(map(dt2milli, extent))\n        method = (\n            self.tickMethod(extent, 10)\n            if interval is None",
     "        extent = list(map(lambda x: x.timestamp() * 1000, extent))\n        method = (\n            self.tickMethod(extent, 10)\n            if interval is None",
     "TimeScale.ticks uses local-time timestamp() again"),
    ("Z2", "C18", "labella/d3_time.py",
     "    ndate = ndate - timedelta(days=diff)\n",
     "    ndate = datetime.fromtimestamp(ndate.timestamp() - diff * 24 * 3600)\n",
     "week floor does local-time arithmetic again (differs only across a DST jump)"),
    ("Z3", "C18", "labella/d3_time.py",
     "    lambda date, offset: date + timedelta(days=math.floor(offset) * 7),",
     "    lambda date, offset: datetime.fromtimestamp(\n        date.timestamp() + math.floor(offset) * 7 * 24 * 3600\n    ),",
     "week step does local-time arithmetic again (differs only across a DST jump)"),
    ("Z4", "C18", "labella/scale.py",
     "                    math.ceil(int(dt2milli(start)) / step) * step,\n                    int(dt2milli(stop)),",
     "                    math.ceil(int(start.timestamp() * 1000) / step) * step,\n                    int(stop.timestamp() * 1000),",
     "millisecond tick range uses local-time timestamp() again"),
    ("Z5", "C18", "labella/d3_time.py",
     "def d3_time_hour_local(date):\n    timezone = getTimezoneOffset(date) / 60\n",
     "def d3_time_hour_local(date):\n    timezone = (date - datetime.utcfromtimestamp(date.timestamp())).total_seconds() / 3600 % 1\n",
     "hour floor compensates for the fractional part of the local UTC offset"),
]

# benign changes: behaviour differs in ways the properties allow; no check may alarm
BENIGN = [
    ("B1", "C18", "labella/d3_time.py",
     "milli2dt = lambda x: datetime.fromtimestamp(x / 1000.0, timezone.utc).replace(\n    tzinfo=None\n)",
     "milli2dt = lambda x: datetime(1970, 1, 1) + timedelta(milliseconds=x)",
     "BENIGN: milliseconds converted by naive timedelta arithmetic (rounding may differ, zone independence holds)"),
    ("B2", "C04", "labella/distributor.py",
     "                layers[j].append(stub)\n\n        return layers\n\n    def algorithm_roundRobin",
     "                layers[j].append(stub)\n\n        return [layer for layer in layers if layer]\n\n    def algorithm_roundRobin",
     "BENIGN: algorithm simple no longer returns trailing empty layers"),
    ("B3", "C04", "labella/force.py",
     "        return self.layers\n",
     "        return None if self.layers is None else [list(layer) for layer in self.layers]\n",
     "BENIGN: getLayers() returns copies of the layer lists"),
    ("B4", "C12", "labella/scale.py",
     "        self._range = x\n        return self.rescale()\n",
     "        self._range = list(x)\n        return self.rescale()\n",
     "BENIGN: range() stores a copy of the caller's list"),
    ("B5", "C12", "labella/scale.py",
     "        return LinearScale(\n            list(self._domain),\n            list(self._range),\n            self._interpolate,\n            self._clamp,\n        )",
     "        other = LinearScale(interpolate=self._interpolate)\n        other.domain(self._domain).range(list(self._range)).clamp(self._clamp)\n        return other",
     "BENIGN: copy() built through the setters"),
    ("B6", "C06", "labella/force.py",
     "        layers = self.distributor.distribute(self._nodes)\n",
     "        layers = self.distributor.distribute(list(self._nodes))\n",
     "BENIGN: compute() hands a copy of the label list to the distributor"),
    ("B7", "C10", "labella/timeline.py",
     "        self.options[\"labella\"] = dict(self.options[\"labella\"])\n",
     "        self.options[\"labella\"] = dict(self.options[\"labella\"])\n        self.options[\"margin\"] = dict(self.options[\"margin\"])\n        self.options[\"labelPadding\"] = dict(self.options[\"labelPadding\"])\n",
     "BENIGN: every instance also copies its margin and padding dicts"),
]
MUTANTS = MUTANTS + BENIGN

# mutants that must NOT be flagged (the property still holds): soundness side
EXPECT_CLEAN = {m[0] for m in BENIGN}


def _make_copy():
    tmp = tempfile.mkdtemp(prefix="labsim_mut_")
    for name in ("labella", "tests", "setup.py", "pyproject.toml", "README.rst", "MANIFEST.in"):
        src = os.path.join(REPO, name)
        if os.path.isdir(src):
            shutil.copytree(src, os.path.join(tmp, name), ignore=shutil.ignore_patterns("__pycache__"))
        elif os.path.exists(src):
            shutil.copy2(src, os.path.join(tmp, name))
    return tmp


def _run_tests(tree):
    env = dict(os.environ)
    env.pop("VERIF_REPO", None)
    p = subprocess.run([sys.executable, "-m", "pytest", "-q", "-p", "no:cacheprovider", "-x"],
                       cwd=tree, capture_output=True, text=True, env=env, timeout=600)
    tail = (p.stdout.strip().splitlines() or [""])[-1]
    return p.returncode == 0, tail


def run_check_on(tree, prop, max_runs, wall, scratch):
    env = dict(os.environ)
    env["VERIF_REPO"] = tree
    env["LABSIM_MAX_RUNS"] = str(max_runs)
    env["LABSIM_WALL_CAP"] = str(wall)
    env["LABSIM_EVIDENCE_DIR"] = os.path.join(scratch, "evidence")
    env["LABSIM_REPLAY_DIR"] = os.path.join(scratch, "replays")
    p = subprocess.run([sys.executable, LABSIM, "check", prop, "--tier", "quick"],
                       capture_output=True, text=True, env=env, timeout=wall + 600)
    return p.returncode, p.stdout + p.stderr


def sensitivity(argv):
    want = set(argv)
    results = []
    ok = True
    for mid, prop, rel, old, new, what in MUTANTS:
        if want and mid not in want and prop not in want:
            continue
        tmp = _make_copy()
        try:
            path = os.path.join(tmp, rel)
            src = open(path).read()
            if src.count(old) != 1:
                print("MUTANT %s: anchor text found %d times in %s - catalogue out of date" % (mid, src.count(old), rel))
                ok = False
                continue
            open(path, "w").write(src.replace(old, new))
            t_ok, tail = _run_tests(tmp)
            t0 = time.monotonic()
            rc, out = run_check_on(tmp, prop, 30000, 50, tmp)
            dt = time.monotonic() - t0
            vio = [l for l in out.splitlines() if l.startswith("violation class=")]
            expect = 0 if mid in EXPECT_CLEAN else 1
            verdict = "as expected" if rc == expect else "UNEXPECTED"
            if rc != expect:
                ok = False
            print("MUTANT %s property=%s tests:%s (%s) check exit=%d %s [%.0fs]  -- %s"
                  % (mid, prop, "pass" if t_ok else "FAIL", tail, rc, verdict, dt, what))
            for l in vio[:2]:
                print("    " + l)
            if rc not in (0, 1):
                print(out[-1500:])
            results.append({"mutant": mid, "property": prop, "what": what, "tests_pass": t_ok,
                            "check_exit": rc, "expected_exit": expect, "violation_lines": vio[:3], "wall_s": round(dt, 1)})
            sys.stdout.flush()
        finally:
            shutil.rmtree(tmp, ignore_errors=True)
    if not want:
        with open(os.path.join(VERIF, "evidence", "selftest_sensitivity.json"), "w") as f:
            json.dump(results, f, indent=1)
            f.write("\n")
    print("SENSITIVITY " + ("OK" if ok else "FAILED"))
    return 0 if ok else 2


# ---------------------------------------------------------------- tzexec

def tzexec(argv):
    from .util import import_labella

    import_labella()
    from .iso import run_isolated
    from .sims import zone

    n = int(argv[0]) if argv else 60
    bad = 0
    for i in range(n):
        plan = driver.make_plan(zone, 777, i, "quick")
        tz = plan["zone"]["tz"]
        a = run_isolated(zone.execute_under, {"plan": plan, "tz": tz, "probe": True})["outcomes"]
        b = zone._subprocess_outcomes(plan, tz)
        if a != b:
            bad += 1
            print("tzexec mismatch for zone %r (run %d)" % (tz, i))
    print("tzexec: %d plans, tzset()-in-child vs TZ-at-start-up mismatches: %d" % (n, bad))
    print("TZEXEC " + ("OK" if not bad else "FAILED"))
    return 0 if not bad else 2


def main(argv):
    if not argv:
        print(__doc__)
        return 2
    if argv[0] == "determinism":
        return determinism(argv[1:])
    if argv[0] == "sensitivity":
        return sensitivity(argv[1:])
    if argv[0] == "tzexec":
        return tzexec(argv[1:])
    if argv[0] == "oracles":
        return oracles(argv[1:])
    if argv[0] == "cold":
        return cold(argv[1:])
    if argv[0] == "digests":
        sim, n, workers, start = argv[1], int(argv[2]), int(argv[3]), int(argv[4])
        print(json.dumps(_digests(sim, n, workers, start)))
        return 0
    print(__doc__)
    return 2


# ---------------------------------------------------------------- oracle self-test

def oracles(argv):
    """Every clause of the two executable models must fire on a hand-made
    counter-example (and stay silent on a correct one): shows that no clause is
    dead code.  Uses the real Node class for C04 and fake scales for C12."""
    from .util import import_labella

    import_labella()
    from labella.node import Node
    from .sims import engine as E, scale as S

    ok = True
    results = []

    def expect(name, got, want):
        nonlocal ok
        g = got[0] if got else None
        good = g == want
        ok = ok and good
        results.append({"case": name, "expected": want, "got": g, "ok": good})
        print("  %-44s expected=%-34s got=%s %s" % (name, want, g, "" if good else "  <-- MISMATCH"))

    def build(k_layers=3):
        """labels a (layer 0), b (layer 1), c (layer 2) with correct chains"""
        a, b, c = Node(10, 20, data={"i": 0}), Node(12, 20, data={"i": 1}), Node(14, 20, data={"i": 2})
        sb = b.createStub(1)
        sc1 = c.createStub(1)
        sc0 = sc1.createStub(1)
        layers = [[a, sb, sc0], [b, sc1], [c]]
        for li, layer in enumerate(layers):
            for it in layer:
                it.layerIndex = li
        return [a, b, c], layers, (sb, sc1, sc0)

    opts = {"algorithm": "overlap", "layerWidth": 30, "density": 1, "nodeSpacing": 1, "stubWidth": 1}
    print("C04 structural model:")
    labels, layers, _ = build()
    expect("correct layering", E.check_c04(layers, labels, opts, True, {}), None)
    expect("None reported", E.check_c04(None, labels, opts, True, {}), "report_not_a_layering")
    labels, layers, _ = build(); layers[1].append(labels[0])
    expect("label in two layers", E.check_c04(layers, labels, opts, True, {}), "item_in_two_places")
    labels, layers, _ = build(); layers[0].remove(labels[0])
    expect("label missing", E.check_c04(layers, labels, opts, True, {}), "label_missing")
    labels, layers, (sb, sc1, sc0) = build(); layers.insert(1, [])
    expect("gap in label layers", E.check_c04(layers, labels, opts, False, {}), "label_layers_not_contiguous")
    labels, layers, _ = build(); layers.append([Node(1, 1)])
    expect("items beyond outermost label layer", E.check_c04(layers, labels, opts, False, {}), "items_beyond_outermost_label_layer")
    labels, layers, _ = build(); labels[1].layerIndex = 0
    expect("layerIndex mismatch", E.check_c04(layers, labels, opts, True, {}), "layerIndex_mismatch")
    labels, layers, (sb, sc1, sc0) = build(); sc1.parent = None; layers[0].remove(sc0)
    expect("chain too short", E.check_c04(layers, labels, opts, False, {}), "chain_too_short")
    labels, layers, (sb, sc1, sc0) = build(); layers[0].remove(sc0); layers[1].append(sc0)
    expect("stub in wrong layer", E.check_c04(layers, labels, opts, False, {}), "stub_in_wrong_layer")
    labels, layers, (sb, sc1, sc0) = build(); sb.child = None
    expect("stub child link broken", E.check_c04(layers, labels, opts, False, {}), "stub_child_link_broken")
    labels, layers, (sb, sc1, sc0) = build(); sb.idealPos = 99
    expect("stub wrong position", E.check_c04(layers, labels, opts, False, {}), "stub_wrong_position")
    labels, layers, (sb, sc1, sc0) = build(); sb.data = {"i": 1}
    expect("stub wrong payload (equal but not identical)", E.check_c04(layers, labels, opts, False, {}), "stub_wrong_payload")
    labels, layers, (sb, sc1, sc0) = build(); sc1.width = 5
    expect("stub wrong width", E.check_c04(layers, labels, opts, False, {}), "stub_wrong_width")
    labels, layers, (sb, sc1, sc0) = build(); extra = sc0.createStub(1)
    expect("chain too long", E.check_c04(layers, labels, opts, False, {}), "chain_too_long")
    labels, layers, _ = build(); layers[0].append(Node(3, 1))
    expect("foreign item", E.check_c04(layers, labels, opts, False, {}), "foreign_item")
    labels, layers, _ = build()
    expect("split without upper bound", E.check_c04(layers, labels, dict(opts, layerWidth=None), False, {}), "split_without_upper_bound")
    labels, layers, _ = build()
    expect("split although it fits", E.check_c04(layers, labels, dict(opts, layerWidth=1000), False, {}), "split_although_fits")
    labels, layers, _ = build()
    expect("split although it fits exactly", E.check_c04(layers, labels, dict(opts, layerWidth=62), False, {}), "split_although_fits")
    a, b, c, d = [Node(10 + i, 20, data={"i": i}) for i in range(4)]
    expect("layer over budget with 4 labels", E.check_c04([[a, b, c, d]], [a, b, c, d], opts, False, {}), "layer_over_budget")
    a, b = Node(10, 20), Node(11, 20)
    expect("two labels over budget tolerated", E.check_c04([[a, b]], [a, b], opts, False, {}), None)

    print("C12 reference model:")

    class Fake(object):
        def __init__(self, d, r, clamp=False, f=None, inv=None, scale=None):
            self._d, self._r, self._c = d, r, clamp
            self._f = f or self._affine
            self._inv = inv or self._affine_inv
            self.scale = scale or self.__call__

        def _t(self, x):
            t = (x - self._d[0]) / (self._d[1] - self._d[0])
            return max(0, min(1, t)) if self._c else t

        def _affine(self, x):
            t = self._t(x)
            return self._r[0] * (1 - t) + self._r[1] * t

        def _affine_inv(self, y):
            t = (y - self._r[0]) / (self._r[1] - self._r[0])
            t = max(0, min(1, t)) if self._c else t
            return self._d[0] * (1 - t) + self._d[1] * t

        def __call__(self, x):
            return self._f(x)

        def invert(self, y):
            return self._inv(y)

        def domain(self):
            return self._d

        def range(self):
            return self._r

        def clamp(self):
            return self._c

    fr = [0.0, 1.0, 0.5, -0.5, 2.0, 0.25, 0.3, 0.7, 1.4, -0.2]
    expect("correct scale", S.check_scale(Fake([1.0, 5.0], [0.0, 100.0]), fr, {}), None)
    expect("correct clamped scale", S.check_scale(Fake([5.0, 1.0], [100.0, 0.0], clamp=True), fr, {}), None)
    expect("maps another domain", S.check_scale(Fake([1.0, 5.0], [0.0, 100.0], f=lambda x: 25 * (x - 2)), fr, {}), "I1_endpoints")
    expect("end point one ulp off", S.check_scale(Fake([1.0, 5.0], [0.0, 100.0], f=lambda x: 0.0 + (100.0 - 0.0) * ((x - 1.0) / 4.0) + (1.5e-14 if x == 5.0 else 0)), fr, {}), "I1_endpoints")
    expect("not affine in between", S.check_scale(Fake([1.0, 5.0], [0.0, 100.0], f=lambda x: 100 * ((x - 1) / 4) ** 3 if 1 < x < 5 else 25 * (x - 1)), fr, {}), "I5_affine")
    expect("invert is not the inverse", S.check_scale(Fake([1.0, 5.0], [0.0, 100.0], inv=lambda y: 1 + y / 20), fr, {}), "I5_invert")
    expect("clamp leaves the range", S.check_scale(Fake([1.0, 5.0], [0.0, 100.0], clamp=True, f=lambda x: 25 * (x - 1)), fr, {}), "I5_clamp_range")
    expect("clamp wrong inside the domain", S.check_scale(Fake([1.0, 5.0], [0.0, 100.0], clamp=True, f=lambda x: min(100, max(0, 25 * (x - 1))) if not 1 < x < 5 else 50.0), fr, {}), "I5_clamp_inside")
    expect("clamp does not saturate outside", S.check_scale(Fake([1.0, 5.0], [0.0, 100.0], clamp=True, f=lambda x: 99.0 if x > 5 else min(100, max(0, 25 * (x - 1)))), fr, {}), "I5_clamp_outside")
    expect("scale() entry point unclamped", S.check_scale(Fake([1.0, 5.0], [0.0, 100.0], clamp=True, scale=lambda x: 25 * (x - 1)), fr, {}), "I5_clamp_range")
    with open(os.path.join(VERIF, "evidence", "selftest_oracles.json"), "w") as f:
        json.dump({"ok": ok, "cases": results}, f, indent=1)
        f.write("\n")
    print("ORACLES " + ("OK" if ok else "FAILED"))
    return 0 if ok else 2


def cold(argv):
    """The cold context (fresh interpreter, ASLR off, fixed environment) is
    exactly repeatable and agrees with the fork-from-pristine context on the
    real tree: n plans per simulation, each executed cold twice under different
    caller environments, and once through the ordinary fork path."""
    from .util import import_labella

    import_labella()
    n = int(argv[0]) if argv else 12
    bad = 0
    for name in ("scale", "engine", "timeline"):
        sim = driver.load_sim(name)
        for i in range(n):
            plan = driver.make_plan(sim, 4242, i, "quick")
            a = sim.execute(dict(plan, cold=True))
            os.environ["LABSIM_SELFTEST_NOISE"] = "x" * (17 * (i + 1))
            b = sim.execute(dict(plan, cold=True))
            os.environ.pop("LABSIM_SELFTEST_NOISE")
            c = sim.execute(plan)
            if not (a["digest"] == b["digest"] == c["digest"]):
                bad += 1
                print("cold mismatch sim=%s run=%d: %s %s %s" % (name, i, a["digest"][:8], b["digest"][:8], c["digest"][:8]))
        print("cold sim=%s: %d plans x (cold, cold under another environment, fork): mismatches so far %d" % (name, n, bad))
    print("COLD " + ("OK" if not bad else "FAILED"))
    return 0 if not bad else 2
