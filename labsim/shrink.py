# -*- coding: utf-8 -*-
"""Plan minimisation: delta debugging over the op list, then sim-specific
per-op simplification, while the same violation class persists."""

import copy
import time


def ddmin_list(items, test, budget):
    """Classic ddmin over a list.  test(list)->bool (True = still fails).
    budget is a one-element list holding the number of evaluations left."""
    n = 2
    items = list(items)
    while len(items) >= 2 and budget[0] > 0:
        chunk = max(1, len(items) // n)
        reduced = False
        i = 0
        while i < len(items) and budget[0] > 0:
            cand = items[:i] + items[i + chunk :]
            budget[0] -= 1
            if cand and test(cand):
                items = cand
                n = max(n - 1, 2)
                reduced = True
            else:
                i += chunk
        if not reduced:
            if chunk == 1:
                break
            n = min(len(items), n * 2)
    # final single-element pass
    i = 0
    while i < len(items) and len(items) > 1 and budget[0] > 0:
        cand = items[:i] + items[i + 1 :]
        budget[0] -= 1
        if test(cand):
            items = cand
        else:
            i += 1
    return items


def shrink_plan(plan, still_fails, simplifiers, well_formed=None, max_evals=600, deadline=None):
    """plan: dict with an 'ops' list.  still_fails(plan)->bool.
    simplifiers(plan) yields candidate plans that are simpler than plan.
    deadline (time.monotonic() value): no evaluation starts after it."""
    budget = [max_evals]
    best = copy.deepcopy(plan)
    if deadline is not None:
        inner = still_fails

        def still_fails(cand):
            if time.monotonic() > deadline:
                budget[0] = 0
                return False
            return inner(cand)

    def test_ops(ops):
        cand = dict(best)
        cand["ops"] = ops
        if well_formed is not None:
            cand = well_formed(copy.deepcopy(cand))
            if cand is None:
                return False
        return still_fails(cand)

    changed = True
    rounds = 0
    while changed and budget[0] > 0 and rounds < 6:
        rounds += 1
        changed = False
        ops = ddmin_list(best["ops"], test_ops, budget)
        if len(ops) < len(best["ops"]):
            cand = dict(best)
            cand["ops"] = ops
            if well_formed is not None:
                cand = well_formed(copy.deepcopy(cand)) or cand
            best = cand
            changed = True
        progress = True
        while progress and budget[0] > 0:
            progress = False
            for cand in simplifiers(copy.deepcopy(best)):
                if budget[0] <= 0:
                    break
                budget[0] -= 1
                if still_fails(cand):
                    best = cand
                    progress = True
                    changed = True
                    break
    return best, max_evals - budget[0]
