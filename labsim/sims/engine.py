# -*- coding: utf-8 -*-
"""ENGINE simulation - decides C06 (a layout is a pure function of labels and
options) and C04 (layering conserves labels, builds complete stub chains
within capacity, and the engine reports it).  DESIGN.md section 4.1.

System under simulation: up to three Force engines and up to three label sets
living in one process.  The schedule is the order of whole API calls
(new engine, re-configure, set labels, compute, stand-alone distribute); the
faults are calls that do not complete (an exception at the k-th executed line
of compute(), a genuine RecursionError from a lowered stack budget) and stale
state planted between calls (positions, layer numbers, junk stub chains,
labels handed over from another engine).
"""

import copy
import sys
import math
import random
from fractions import Fraction

from .. import seams
from ..iso import run_isolated
from ..util import HarnessError, canon, digest, h64

NAME = "engine"
PROPERTIES = ["C04", "C06"]

BUDGET = {
    "quick": {"runs": 30000, "wall": 55, "chunk": 20, "shrink_evals": 300},
    "thorough": {"runs": 1500000, "wall": 840, "chunk": 50, "shrink_evals": 600},
}

FAULT_KINDS = ["abort", "stack_exhaustion", "stale", "handover", "rejected_config"]

PROBES = [
    "layers_ge_3", "layer_with_two_labels_over_budget", "label_and_stub_tie_on_target",
    "abort_in_createStub", "abort_in_removeStub", "abort_in_solver", "abort_in_sort_key",
    "abort_in_distributor", "abort_in_removeOverlap", "abort_in_force", "abort_in_node",
    "recompute_after_abort", "recompute_after_stack_exhaustion", "recompute_same_engine",
    "engine_reused_for_other_set", "permuted_input", "reconfigured_then_compute",
    "algorithm_simple_multilayer", "algorithm_none", "trailing_empty_layer", "no_upper_bound",
    "fits_single_layer", "label_wider_than_layer", "identical_positions", "distribute_standalone",
    "distribute_on_engine_labels", "stale_stub_at_compute", "stale_layer_at_compute",
    "stale_pos_at_compute", "getLayers_checked", "abort_as_SimAbort", "abort_as_MemoryError",
    "abort_as_KeyboardInterrupt", "recompute_after_other_engine_used_same_objects",
    "fits_budget_exactly", "mixed_fresh_and_used_labels", "nodes_called_with_same_list_object",
    "layers_ge_4", "all_labels_at_one_position", "list_edited_in_place_and_handed_over_again",
    "subset_of_used_labels", "clones_of_laid_out_labels", "readonly_inspection",
    "standalone_distributor_reused", "labels_remeasured_between_computes", "option_written_directly",
    "caller_dropped_label_set", "engine_dropped_labels_kept", "caller_edits_dict_it_passed",
    "label_list_emptied_in_place", "engine_kept_labels_after_list_emptied", "long_lived_process_run",
    "abort_placed_by_function",
]

RULE = {
    "C06": (
        "Each run draws (one PRNG seeded by sha256(VERIF_SEED:engine:i)) 1-3 label sets (1-30 labels, "
        "rarely 60; dense/tied/half-integer/spread positions; one width per distinct position), an "
        "option palette (minPos, maxPos, nodeSpacing, lineSpacing, density, stubWidth, algorithm) and a "
        "history of 6-14 operations over up to 3 engines: NEW_ENGINE, CONFIG, SET_LABELS(fresh|same|"
        "permuted|handed over from another engine), COMPUTE, DISTRIBUTE, plus faults ABORT_COMPUTE "
        "(SimAbort/KeyboardInterrupt/MemoryError raised at a seeded fraction of the call's executed lines inside "
        "labella, optionally restricted to one file or to lambdas), "
        "STACK_LIMIT_COMPUTE (recursion budget lowered to depth+5..80 -> genuine RecursionError), STALE "
        "(junk positions / layer numbers / stub chains). After every completed compute the map "
        "(idealPos,width)->sorted[(layerIndex,currentPos)] must equal that of a fresh Force on fresh "
        "Nodes in canonical order, computed in a pristine forked child. Non-trivial run: at least one "
        "judged compute happened on state with history (re-compute, stale attribute, permuted or "
        "handed-over labels, reused engine, or after a fired fault); distinct = distinct (op-kind, "
        "engine, set, mode) sequences with label-count and algorithm."
    ),
    "C04": (
        "Same runs as C06. After every completed compute() (on engine.getLayers()) and every stand-alone "
        "Distributor.distribute() (on its result) a structural model of C04 is evaluated: labels conserved "
        "by identity, label layers contiguous from 0, layerIndex matches, each label in layer k owns a "
        "parent chain of exactly k stubs (one per nearer layer, child/parent linked, idealPos and data of "
        "the label, configured stubWidth), no other items, single layer when unbounded or fitting, and "
        "for `overlap` every layer within density*width unless it holds <=2 labels (1e-9 guard band). "
        "Non-trivial run: at least one judged layering with >=2 layers or produced on state with "
        "history/faults; distinct as for C06."
    ),
}

ASSUMPTIONS = {
    "C06": [
        "labels that share a data position share a width (C06's proviso) - guaranteed by the generator",
        "an aborted compute() is a producer of stale state; its own outcome is not judged, the next completed compute is",
        "several engines may hold the same label objects; an engine is judged only immediately after its own completed compute()",
        "abort points are line events in files under <repo>/labella only; label/option space is sampled",
        "the reference is the same real code on fresh objects in a pristine forked child",
        "what an engine's public options dict holds are its options: set_options() calls and a direct write of lineSpacing (a key that needs no derived value) both count as re-configuration",
        "labels may be re-measured (Node.width assigned) between computes; all live objects of a set at one position get the same new width",
    ],
    "C04": [
        "trailing empty layers (algorithm `simple` with more estimated layers than labels) are tolerated",
        "budget comparisons use a 1e-9 relative guard band and are not asserted inside it, except that 'fits' is asserted when the code's own summation and the budget product are exact in floating point",
        "stand-alone distribute() is judged on fresh nodes only; on used nodes it only produces stale state",
        "label/option space is sampled; the simulation's contribution is the history/fault dimension",
    ],
}

COMPONENTS = {
    "real": ["labella.force.Force", "labella.distributor.Distributor", "labella.removeOverlap",
             "labella.vpsc (Solver, Blocks, Block, Variable, Constraint)", "labella.node.Node", "intervaltree"],
    "simulated": ["call history / scheduler over engines and label sets", "abort fault (sys.settrace line events)",
                  "stack exhaustion (sys.setrecursionlimit)", "stale state planted through public attributes/createStub"],
    "stub": [],
}

FORCE_DEFAULTS = {"nodeSpacing": 3, "minPos": 0, "maxPos": None, "algorithm": "overlap",
                  "density": 0.85, "stubWidth": 1}
DIST_DEFAULTS = {"algorithm": "overlap", "layerWidth": 1000, "density": 0.75, "nodeSpacing": 3, "stubWidth": 1}


# ------------------------------------------------------------------ generation

def gen_labels(rng, big):
    r = rng.random()
    if big:
        n = rng.randrange(31, 61)
    elif r < 0.35:
        n = rng.randrange(1, 5)
    elif r < 0.8:
        n = rng.randrange(5, 14)
    else:
        n = rng.randrange(14, 31)
    layout = rng.choice(["dense", "ties", "half", "spread", "mixed", "dense", "ties", "one", "hashy"])
    wpal = rng.choice([[10, 20, 50], [50], [5.5, 12.5, 40], [3, 7.25, 33.3], [1, 2, 3], [60, 120, 300],
                       [24.9, 28.1, 18.3, 17.3], [0.1, 0.7, 1.3]])
    base = rng.choice([0, 0, 100, -50, 250.5, -5, -3])
    span = rng.choice([20, 100, 400, 1000])
    if rng.random() < 0.04:
        # data positions of another magnitude altogether (epoch seconds / microseconds):
        # legal labels; whatever a layout derives from the size of its coordinates
        # (tolerances, scratch values) must not outlive it
        base = rng.choice([10 ** 9, 5 * 10 ** 14, 2 ** 50, -3 * 10 ** 14])
        # widths stay well above the spacing of floats out there (0.0625 - 0.25): a label
        # whose ideal interval is empty in floating point is a known finding of its own
        wpal = [w for w in wpal if w >= 3] or [50]
    pos2w = {}
    labels = []
    for _ in range(n):
        if layout == "hashy":
            # small integers around -1 / -2 (equal hash() in CPython), 0 and 1
            p = rng.choice([-2, -1, -1, -2, 0, 1, 3, 6, 10, 15])
        elif layout == "one":
            p = base + 7
        elif layout == "dense":
            p = base + rng.randrange(0, max(2, span // 8))
        elif layout == "ties":
            p = base + rng.choice([0, 1, 5, 5, 5, 40, 40, span])
        elif layout == "half":
            p = base + rng.randrange(0, span * 2) / 2.0
        elif layout == "spread":
            p = base + rng.randrange(0, span)
        else:
            p = base + rng.choice([rng.randrange(0, span), rng.randrange(0, span) / 4.0, 7, 7, span / 2])
        p = float(p) if isinstance(p, float) and p != int(p) else int(p)
        if p not in pos2w:
            pos2w[p] = rng.choice(wpal)
        labels.append([p, pos2w[p]])
    return labels


def gen_opts(rng, labels, full=True):
    o = {}
    r = rng.random()
    if r < 0.45:
        pass  # default minPos 0
    elif r < 0.55:
        o["minPos"] = None
    elif r < 0.75:
        o["minPos"] = rng.choice([10, 100, 250])
    elif r < 0.9:
        o["minPos"] = rng.choice([-100, -30])
    else:
        o["minPos"] = rng.choice([0.5, 12.25, -7.5])
    if rng.random() < 0.8:
        lo = o.get("minPos", 0)
        lo = 0 if lo is None else lo
        tot = sum(w for _, w in labels)
        W = rng.choice([tot * 0.3, tot * 0.6, tot * 1.0, tot * 1.5, tot * 4, 100, 400, 1000,
                        max(w for _, w in labels) * 0.8])
        W = max(1.0, float(int(W * 4)) / 4)
        o["maxPos"] = lo + W
    if rng.random() < 0.5:
        o["nodeSpacing"] = rng.choice([0, 1, 2.5, 3, 10])
    if rng.random() < 0.5:
        o["density"] = rng.choice([1, 0.85, 0.75, 0.5, 0.3, 0.05])
    if rng.random() < 0.4:
        o["stubWidth"] = rng.choice([0, 1, 2, 0.5, 15])
    if rng.random() < 0.5:
        o["algorithm"] = rng.choice(["overlap", "overlap", "simple", "none"])
    if rng.random() < 0.15:
        o["lineSpacing"] = rng.choice([0, 2, 5])
    if rng.random() < 0.05:
        # accepted (metrics read it) but without influence on the layering: the
        # layer width is always derived from the two bounds
        o["layerWidth"] = rng.choice([50, 500, 960])
    if rng.random() < 0.06:
        # boundary configuration in floating point: the budget is the required
        # width as the library itself sums it (labels sorted by position), give
        # or take rounding - one ulp decides between one layer and two, so the
        # decision must not depend on anything but the labels and options
        lo = o.get("minPos", 0)
        if lo is not None:
            dens = rng.choice([1, 1, 0.85, 0.75])
            sp = o.get("nodeSpacing", 3)
            tot = 0
            for _, w in sorted(labels, key=lambda t: t[0]):
                tot += w + sp
            tot -= sp
            if tot > 0:
                o["density"] = dens
                o["maxPos"] = lo + tot / dens
                o["algorithm"] = rng.choice(["overlap", "simple"])
    elif rng.random() < 0.08:
        # boundary configuration: the labels fit the density budget *exactly*
        lo = o.get("minPos", 0)
        if lo is not None:
            dens = rng.choice([1, 0.5, 0.75, 0.25])
            sp = o.get("nodeSpacing", 3)
            req = sum(Fraction(w) for _, w in labels) + Fraction(sp) * (len(labels) - 1)
            W = req / Fraction(dens)
            fw = float(W)
            hi = lo + fw
            if W > 0 and Fraction(fw) == W and Fraction(hi) - Fraction(lo) == W and hi - lo == fw:
                o["density"] = dens
                o["maxPos"] = hi
                o["algorithm"] = rng.choice(["overlap", "simple", "simple"])
    return o


def gen_dist_opts(rng, labels):
    o = {}
    tot = sum(w for _, w in labels)
    if rng.random() < 0.85:
        o["layerWidth"] = rng.choice([tot * 0.3, tot * 0.7, tot * 1.2, tot * 3, 100, 1000, None])
        if o["layerWidth"] is not None:
            o["layerWidth"] = max(1.0, float(int(o["layerWidth"] * 4)) / 4)
    if rng.random() < 0.5:
        o["density"] = rng.choice([1, 0.75, 0.5, 0.2])
    if rng.random() < 0.5:
        o["nodeSpacing"] = rng.choice([0, 1, 3, 7.5])
    if rng.random() < 0.4:
        o["stubWidth"] = rng.choice([0, 1, 3, 0.5])
    if rng.random() < 0.6:
        o["algorithm"] = rng.choice(["overlap", "simple", "none"])
    return o


def gen_plan(rng, tier):
    nsets = rng.choice([1, 1, 2, 2, 3])
    neng = rng.choice([1, 1, 2, 3])
    big = rng.random() < (0.02 if tier == "quick" else 0.05)
    sets = [gen_labels(rng, big and i == 0) for i in range(nsets)]
    for i in range(1, nsets):
        if rng.random() < 0.35:
            # a near-twin of the previous set: one label moved by one unit (or dropped /
            # duplicated) - label sets that agree in almost everything
            twin = [list(t) for t in sets[i - 1]]
            widths = {p: w for p, w in twin}
            j = rng.randrange(len(twin))
            how = rng.random()
            special = [k for k, t in enumerate(twin) if t[0] in (-1, -2)]
            if how < 0.45 and special:
                # -1 <-> -2: values with equal hash() in CPython
                j = rng.choice(special)
                newp = -3 - twin[j][0]
                twin[j] = [newp, widths.get(newp, twin[j][1])]
            elif how < 0.35:
                # some positions narrowed to the default stub width: the twin's labels
                # look like the other set's stubs
                chosen = set(rng.sample(sorted(widths), max(1, len(widths) // 2)))
                twin = [[p, 1 if p in chosen else w] for p, w in twin]
            elif how < 0.6:
                newp = twin[j][0] + rng.choice([1, -1])
                twin[j] = [newp, widths.get(newp, twin[j][1])]
            elif how < 0.8 and len(twin) > 1:
                del twin[j]
            else:
                twin.append(list(twin[j]))
            sets[i] = twin
    enabled = {k: rng.random() < 0.5 for k in ("abort", "stack", "stale", "badcfg")}
    if rng.random() < 0.25:
        enabled = {k: False for k in enabled}  # a fault-free configuration
    mirror = None
    if neng >= 2 and rng.random() < 0.05:
        # wall mirror: engine 0 keeps its one label right of a lower bound, engine 1 keeps
        # its one label left of an upper bound, and the numbers coincide (bound of the one =
        # wanted position of the other, same width): two problems with equal positions and
        # gaps in which only the ROLE of each value (wall or label) differs
        w = rng.choice([30, 50, 96, 75.5])
        m = rng.choice([60, 100, 12.5, -30])
        p = m + rng.choice([5, 20, 40, 120])
        sets = [[[p, w]], [[m, w]]] + sets[2:]
        nsets = len(sets)
        mirror = (m, p)
    ops = []
    have_engine = set()
    engine_set = {}
    nops = rng.randrange(6, 21) if tier == "quick" else rng.randrange(6, 31)
    e0 = 0
    eng_opts = {}
    o0 = gen_opts(rng, sets[0]) if mirror is None else {"minPos": mirror[0]}
    eng_opts[e0] = dict(FORCE_DEFAULTS, **o0)
    ops.append(["new_engine", e0, o0])
    ops.append(["set_labels", e0, 0, "fresh", 0])
    ops.append(["compute", e0])
    have_engine.add(e0)
    engine_set[e0] = 0
    if mirror is not None:
        o1 = {"minPos": None, "maxPos": mirror[1]}
        eng_opts[1] = dict(FORCE_DEFAULTS, **o1)
        ops.append(["new_engine", 1, o1])
        ops.append(["set_labels", 1, 1, "fresh", 0])
        ops.append(["compute", 1])
        ops.append(["compute", e0])
        have_engine.add(1)
        engine_set[1] = 1
    while len(ops) < nops:
        r = rng.random()
        e = rng.randrange(neng)
        if e not in have_engine:
            s = rng.randrange(nsets)
            o = gen_opts(rng, sets[s])
            eng_opts[e] = dict(FORCE_DEFAULTS, **o)
            ops.append(["new_engine", e, o] + (["caller_keeps"] if rng.random() < 0.2 else []))
            have_engine.add(e)
            continue
        if r < 0.3:
            if engine_set.get(e) is None:
                s = rng.randrange(nsets)
                ops.append(["set_labels", e, s, rng.choice(["fresh", "same", "handover"]), rng.randrange(1 << 30)])
                engine_set[e] = s
            ops.append(["compute", e])
        elif r < 0.5:
            s = rng.randrange(nsets)
            mode = rng.choice(["fresh", "fresh", "same", "permute", "permute", "handover", "mixed", "reversed",
                               "same_list", "inplace", "inplace", "subset", "subset", "sorted", "clones", "emptied"])
            ops.append(["set_labels", e, s, mode, rng.randrange(1 << 30)])
            engine_set[e] = s
        elif r < 0.6:
            s = engine_set.get(e)
            base = sets[s] if s is not None else sets[0]
            full = gen_opts(rng, base)
            keys = list(full.keys())
            rng.shuffle(keys)
            delta = {k: full[k] for k in keys[: rng.randrange(1, 3)]} if keys else {"density": 0.6}
            cr = rng.random()
            if cr < 0.06:
                # written straight into the public options dict (no set_options call);
                # only a key that needs no derived value
                v = rng.choice([0, 2, 5, 9])
                eng_opts[e] = dict(eng_opts[e], lineSpacing=v)
                ops.append(["write_option", e, "lineSpacing", v])
                continue
            if cr < 0.08:
                delta = {}                                   # set_options({})
            elif cr < 0.16:
                ks = [k for k in ("density", "nodeSpacing", "stubWidth", "algorithm", "maxPos") if k in eng_opts[e]]
                delta = {k: eng_opts[e][k] for k in ks[: rng.randrange(1, 3)]}   # the values it already has
            merged = dict(eng_opts[e])
            merged.update(delta)
            if not _bounds_ok(merged):
                # keep the excluded configuration (maxPos <= minPos) out of the plan
                delta["maxPos"] = merged["minPos"] + rng.choice([50, 200, 800])
                merged.update(delta)
            eng_opts[e] = merged
            if enabled.get("badcfg") and merged.get("minPos") is not None and merged.get("maxPos") is not None \
                    and rng.random() < 0.4:
                # rejected call: the same delta, but with the upper bound mistyped as a
                # string (raises while the layer width is computed), immediately followed
                # by the corrected call
                bad = dict(delta)
                bad["maxPos"] = str(merged["maxPos"])
                ops.append(["bad_config", e, bad])
                ops.append(["config", e, {"maxPos": merged["maxPos"]}])
            else:
                ops.append(["config", e, delta])
        elif r < 0.7 and enabled["abort"]:
            ops.append(["abort_compute", e, rng.randrange(0, 1000000),
                        rng.choice(["any", "any", "node.py", "distributor.py", "force.py",
                                    "removeOverlap.py", "vpsc.py", "<lambda>"]),
                        rng.choice(["SimAbort", "SimAbort", "MemoryError", "KeyboardInterrupt"])]
                       + ([rng.randrange(0, 1000000)] if rng.random() < 0.5 else []))
        elif r < 0.76 and enabled["stack"]:
            ops.append(["stack_compute", e, int(math.exp(rng.uniform(math.log(5), math.log(80))))])
        elif r < 0.88 and enabled["stale"]:
            ops.append(["stale", rng.randrange(nsets), rng.choice(["pos", "layer", "stub", "all", "usercalls", "solve"]),
                        rng.randrange(1 << 30)])
        elif r < 0.90 and rng.random() < 0.5:
            ops.append(["inspect", e, rng.randrange(1 << 30)])
        elif r < 0.90 and rng.random() < 0.5:
            ops.append(["rewidth", rng.randrange(nsets), rng.randrange(1 << 30)])
        elif r < 0.90 and rng.random() < 0.5:
            ops.append(["forget", rng.randrange(nsets)])
        elif r < 0.90:
            ops.append(["drop_engine", e])
            have_engine.discard(e)
            engine_set[e] = None
        elif r < 0.94:
            s = rng.randrange(nsets)
            ops.append(["distribute", s, gen_dist_opts(rng, sets[s]), rng.choice(["fresh", "fresh", "existing", "reuse", "reuse"])])
        else:
            s = rng.randrange(nsets)
            o = gen_opts(rng, sets[s])
            eng_opts[e] = dict(FORCE_DEFAULTS, **o)
            ops.append(["new_engine", e, o])
            engine_set[e] = None
    # make sure histories end with something judged
    for e in sorted(have_engine):
        if engine_set.get(e) is not None and rng.random() < 0.7:
            ops.append(["compute", e])
    if rng.random() < 0.015 and len(sets[0]) <= 8:
        # a long-lived process: hundreds of re-layouts on one engine (state that only
        # builds up over time - counters, pools, caches that fill)
        for _ in range(rng.choice([200, 500, 900])):
            ops.append(["compute", 0])
            if rng.random() < 0.1:
                ops.append(["set_labels", 0, 0, rng.choice(["same", "permute", "fresh"]), rng.randrange(1 << 30)])
    plan = {"sim": NAME, "sets": sets, "ops": ops, "enabled": enabled}
    if rng.random() < 0.15:
        plan["pyopt"] = 1  # environment: the library compiled as under `python -O`
    g = rng.random()
    if g < 0.1:
        plan["gc"] = "disabled"      # environment: no cyclic garbage collection during the run
    elif g < 0.2:
        plan["gc"] = "every_op"      # ... or a full collection after every operation
    if tier == "thorough" and rng.random() < 0.004:
        plan["cold_crosscheck"] = True
    if rng.random() < 0.04:
        plan["warnings"] = "error"   # environment: warnings escalated to errors (python -W error)
    return plan


def _bounds_ok(opts):
    lo, hi = opts.get("minPos"), opts.get("maxPos")
    if lo is None or hi is None:
        return True
    return hi - lo >= 1


def _has_empty_interval(plan):
    for st in plan.get("sets", []):
        for pos, w in st:
            if not (pos - w / 2.0 < pos + w / 2.0):
                return True
    return False


def valid(plan):
    """The configurations C04/C06 exclude never appear in a plan: maxPos <= minPos.
    Nor do labels whose ideal interval is empty in floating point (known finding,
    DESIGN section 6: demonstrated by its own replay on every run, kept out of the
    sampled plans so that it does not end every batch that meets it)."""
    if _has_empty_interval(plan):
        return False
    eng = {}
    ops = plan["ops"]
    for i, op in enumerate(ops):
        if op[0] == "bad_config":
            nxt = ops[i + 1] if i + 1 < len(ops) else None
            if nxt is None or nxt[0] != "config" or nxt[1] != op[1] or "maxPos" not in nxt[2] \
                    or isinstance(nxt[2]["maxPos"], str):
                return False
            if not isinstance(op[2].get("maxPos"), str):
                return False
    for op in plan["ops"]:
        if op[0] == "bad_config" and op[1] in eng:
            # keys other than the mistyped bound may stay configured
            eng[op[1]].update({k: v for k, v in op[2].items() if k != "maxPos"})
            continue
        if op[0] == "new_engine":
            eng[op[1]] = dict(FORCE_DEFAULTS, **op[2])
        elif op[0] == "write_option" and op[1] in eng:
            eng[op[1]][op[2]] = op[3]
        elif op[0] == "config" and op[1] in eng:
            eng[op[1]].update(op[2])
        else:
            continue
        if not _bounds_ok(eng[op[1]]):
            return False
    for op in plan["ops"]:
        if op[0] == "distribute":
            lw = op[2].get("layerWidth", 1000)
            if lw is not None and lw < 1:
                return False
    return True


def plan_signature(plan):
    return [[len(s) for s in plan["sets"]],
            [(o[0], o[1], o[2] if o[0] in ("set_labels",) else None, o[3] if o[0] == "set_labels" else None,
              (o[2].get("algorithm") if o[0] in ("new_engine", "config", "distribute") and isinstance(o[2], dict) else None))
             for o in plan["ops"]]]


def well_formed(plan):
    nsets = len(plan["sets"])
    ops = []
    for op in plan["ops"]:
        if op[0] in ("set_labels",) and op[2] >= nsets:
            continue
        if op[0] in ("stale", "distribute", "rewidth", "forget") and op[1] >= nsets:
            continue
        ops.append(op)
    if not ops:
        return None
    plan["ops"] = ops
    if not valid(plan):
        return None
    return plan


# ------------------------------------------------------------------ C04 structural model

def check_c04(layers, labels, dist_opts, engine_mode, stats):
    """layers: what the engine / distributor reports.  labels: the input label
    objects.  dist_opts: effective distributor options (algorithm, layerWidth,
    density, nodeSpacing, stubWidth).  Returns None or (class, detail)."""
    if isinstance(layers, (list, tuple)) and all(isinstance(l, (list, tuple)) for l in layers):
        layers = [list(l) for l in layers]  # any sequence of sequences is a layering
    if not isinstance(layers, list) or not layers or not all(isinstance(l, list) for l in layers):
        return ("report_not_a_layering", {"reported": type(layers).__name__ if not isinstance(layers, list) else "empty or malformed list"})
    label_ids = {id(n): i for i, n in enumerate(labels)}
    where = {}
    for li, layer in enumerate(layers):
        for item in layer:
            if id(item) in where:
                return ("item_in_two_places", {"layers": [where[id(item)], li]})
            where[id(item)] = li
    # (2) conservation
    for n in labels:
        if id(n) not in where:
            return ("label_missing", {"label": [n.idealPos, n.width]})
    label_layers = sorted({where[id(n)] for n in labels})
    K = label_layers[-1]
    if label_layers != list(range(K + 1)):
        return ("label_layers_not_contiguous", {"layers_holding_labels": label_layers})
    for li in range(K + 1, len(layers)):
        if layers[li]:
            return ("items_beyond_outermost_label_layer", {"layer": li, "items": len(layers[li])})
    if len(layers) > K + 1:
        stats["probe:trailing_empty_layer"] = stats.get("probe:trailing_empty_layer", 0) + 1
    if engine_mode:
        for li, layer in enumerate(layers):
            for item in layer:
                if item.layerIndex != li:
                    return ("layerIndex_mismatch", {"layer": li, "layerIndex": item.layerIndex,
                                                    "is_label": id(item) in label_ids})
    # (3) chains
    sw = dist_opts["stubWidth"]
    on_chain = set()
    for n in labels:
        k = where[id(n)]
        prev = n
        p = n.parent
        for j in range(k - 1, -1, -1):
            if p is None:
                return ("chain_too_short", {"label": [n.idealPos, n.width], "label_layer": k, "missing_layer": j})
            if id(p) in label_ids:
                return ("label_used_as_stub", {"label": [n.idealPos, n.width]})
            if where.get(id(p)) != j:
                return ("stub_in_wrong_layer", {"label": [n.idealPos, n.width], "label_layer": k,
                                                "expected_layer": j, "found_in": where.get(id(p))})
            if id(p) in on_chain:
                return ("stub_shared_by_two_chains", {"label": [n.idealPos, n.width]})
            on_chain.add(id(p))
            if p.child is not prev:
                return ("stub_child_link_broken", {"label": [n.idealPos, n.width], "layer": j})
            if p.idealPos != n.idealPos:
                return ("stub_wrong_position", {"label": [n.idealPos, n.width], "stub_idealPos": p.idealPos})
            if p.data is not n.data:
                return ("stub_wrong_payload", {"label": [n.idealPos, n.width]})
            if p.width != sw:
                return ("stub_wrong_width", {"stub_width": p.width, "configured": sw})
            prev = p
            p = p.parent
        if p is not None:
            return ("chain_too_long", {"label": [n.idealPos, n.width], "label_layer": k})
    # (4) no other items
    for li, layer in enumerate(layers):
        for item in layer:
            if id(item) not in label_ids and id(item) not in on_chain:
                return ("foreign_item", {"layer": li, "item": [item.idealPos, item.width]})
    # (5) layer count / capacity
    n = len(labels)
    sp = dist_opts["nodeSpacing"]
    lw = dist_opts.get("layerWidth")
    alg = dist_opts.get("algorithm")
    if K >= 2:
        stats["probe:layers_ge_3"] = stats.get("probe:layers_ge_3", 0) + 1
    if K >= 3:
        stats["probe:layers_ge_4"] = stats.get("probe:layers_ge_4", 0) + 1
    if n > 1 and len({x.idealPos for x in labels}) == 1:
        stats["probe:all_labels_at_one_position"] = stats.get("probe:all_labels_at_one_position", 0) + 1
    if not lw:
        stats["probe:no_upper_bound"] = stats.get("probe:no_upper_bound", 0) + 1
        if K != 0:
            return ("split_without_upper_bound", {"layers": K + 1})
        return None
    budget = dist_opts["density"] * lw
    required = math.fsum(x.width for x in labels) + sp * (n - 1)
    band = 1e-9 * max(abs(budget), abs(required), 1.0)
    if max(x.width for x in labels) > lw:
        stats["probe:label_wider_than_layer"] = stats.get("probe:label_wider_than_layer", 0) + 1
    fits_exactly = False
    if abs(required - budget) <= band:
        # inside the guard band nothing is asserted - unless the arithmetic is
        # exact (every partial sum of the code's own summation and the budget
        # product are representable), in which case "fits" is unambiguous
        ex_b = Fraction(dist_opts["density"]) * Fraction(lw)
        if Fraction(budget) == ex_b:
            tot_f, tot_q, exact = 0, Fraction(0), True
            for x in sorted(labels, key=lambda t: t.idealPos):
                tot_f += x.width + sp
                tot_q += Fraction(x.width) + Fraction(sp)
                if Fraction(tot_f) != tot_q:
                    exact = False
                    break
            if exact and Fraction(tot_f - sp) == tot_q - Fraction(sp) and tot_q - Fraction(sp) <= ex_b:
                fits_exactly = True
                stats["probe:fits_budget_exactly"] = stats.get("probe:fits_budget_exactly", 0) + 1
    if required <= budget - band or fits_exactly:
        stats["probe:fits_single_layer"] = stats.get("probe:fits_single_layer", 0) + 1
        if K != 0:
            return ("split_although_fits", {"required": required, "budget": budget, "layers": K + 1})
        return None
    if alg == "none":
        stats["probe:algorithm_none"] = stats.get("probe:algorithm_none", 0) + 1
        return None
    if alg == "simple":
        if K >= 1:
            stats["probe:algorithm_simple_multilayer"] = stats.get("probe:algorithm_simple_multilayer", 0) + 1
        return None
    if alg == "overlap" and n >= 3 and required > budget + band:
        for li in range(K + 1):
            layer = layers[li]
            nl = sum(1 for it in layer if id(it) in label_ids)
            tot = math.fsum(it.width for it in layer) + sp * (len(layer) - 1)
            b2 = 1e-9 * max(abs(budget), abs(tot), 1.0)
            if tot > budget + b2:
                if nl > 2:
                    return ("layer_over_budget", {"layer": li, "labels": nl, "items": len(layer),
                                                  "total": tot, "budget": budget})
                if nl == 2:
                    stats["probe:layer_with_two_labels_over_budget"] = stats.get(
                        "probe:layer_with_two_labels_over_budget", 0) + 1
    return None


def effective_dist_opts(force_opts):
    d = dict(DIST_DEFAULTS)
    for k in DIST_DEFAULTS:
        if k in force_opts:
            d[k] = force_opts[k]
    if force_opts.get("minPos") is not None and force_opts.get("maxPos") is not None:
        d["layerWidth"] = force_opts["maxPos"] - force_opts["minPos"]
    else:
        d["layerWidth"] = None
    return d


# ------------------------------------------------------------------ execution (child)

def _chain_signature(n):
    """What a label's stub chain looks like: layer number and, per stub towards the
    axis, (layerIndex, idealPos, width, child is the previous item)."""
    out = [n.layerIndex]
    prev, p, guard = n, n.parent, 0
    while p is not None and guard < 64:
        out.append([p.layerIndex, canon(p.idealPos), canon(p.width), p.child is prev, canon(p.currentPos)])
        prev, p, guard = p, p.parent, guard + 1
    return out


def _observed_map(labels):
    m = {}
    for n in labels:
        key = "%s|%s" % (canon(n.idealPos), canon(n.width))
        m.setdefault(key, []).append([n.layerIndex, n.currentPos])
    return {k: canon(sorted(v, key=lambda t: (t[0], t[1]))) for k, v in m.items()}


def _stale_flags(labels, stats):
    out = []
    if any(n.parent is not None for n in labels):
        out.append("stub")
    if any(n.layerIndex != 0 for n in labels):
        out.append("layer")
    if any(n.currentPos != n.idealPos for n in labels):
        out.append("pos")
    return out


def _run(plan):
    import gc as _gc

    if plan.get("gc") == "disabled":
        _gc.disable()
    if plan.get("warnings") == "error":
        import warnings

        warnings.simplefilter("error")  # environment: python -W error (run and references alike)
    if plan.get("pyopt"):
        # the library as `python -O` compiles it (assert statements stripped)
        from ..util import reimport_labella

        reimport_labella(optimize=1)
    from labella.distributor import Distributor
    from labella.force import Force
    from labella.node import Node

    seams.silence_stdio()
    sys.setrecursionlimit(3000)  # the harness's own frames must never decide whether the solver's recursion fits
    stats = {}
    log = []
    checkpoints = []
    c04 = []
    engines = {}   # e -> {"force", "opts", "set", "computed", "dirty"}
    objs = {}      # s -> list of Node
    laid_by = {}   # s -> e that last ran compute() on the current objects of set s
    # Several engines may hold the same label objects at the same time (that is
    # sequential sharing by the caller); an engine is only ever judged right
    # after its *own* compute() has completed.

    kept_cfgs = []     # option dicts the caller passed to Force(...) and went on editing
    shared_dist = []   # the one stand-alone Distributor the caller keeps
    shared_eff = {}

    def bump(k, n=1):
        stats[k] = stats.get(k, 0) + n

    cur_sets = [[list(t) for t in st] for st in plan["sets"]]  # widths may be re-measured during the run

    def fresh_nodes(s):
        return [Node(p, w, data={"i": i}) for i, (p, w) in enumerate(cur_sets[s])]

    def judge(step, e, history):
        eng = engines[e]
        s = eng["set"]
        labels = eng["labels"]
        f = eng["force"]
        got = f.nodes()
        if len(got) != len(labels) or {id(x) for x in got} != {id(x) for x in labels}:
            c04.append({"property": "C04", "class": "engine_lost_labels", "step": step,
                        "detail": {"reported": len(got), "given": len(labels)}})
        checkpoints.append({"step": step, "opts": dict(eng["opts"]), "set": s, "labels": [list(t) for t in eng["spec"]],
                            "observed": _observed_map(labels), "history": history,
                            "fault_config": eng.get("after_fault", False)})
        layers = f.getLayers()
        bump("probe:getLayers_checked")
        if not labels:
            # no labels: nothing may be reported
            if layers and any(len(layer) for layer in layers):
                c04.append({"property": "C04", "class": "items_reported_for_no_labels", "step": step,
                            "detail": {"op": plan["ops"][step], "reported_layer_sizes": [len(layer) for layer in layers]}})
            eng["clean"] = None
            return
        bad = check_c04(layers, labels, effective_dist_opts(eng["opts"]), True, stats)
        if bad is not None:
            bad[1]["op"] = plan["ops"][step]
            bad[1]["history"] = history
            c04.append({"property": "C04", "class": bad[0], "step": step, "detail": bad[1]})
            eng["clean"] = None
        else:
            # from here on, until somebody touches this engine or these label
            # objects, the reported result must stay what it is (quiescence)
            eng["clean"] = {"step": step, "observed": _observed_map(labels), "opts": dict(eng["opts"])}
        if len({n.idealPos for n in labels}) < len(labels):
            bump("probe:identical_positions")
        # label and stub tying on a target in some layer
        if isinstance(layers, list):
            for layer in layers if len(layers) > 1 else []:
                seen = {}
                for it in layer:
                    t = getattr(it, "targetPos", None)
                    kind = "stub" if it.child is not None else "label"
                    if t in seen and seen[t] != kind:
                        bump("probe:label_and_stub_tie_on_target")
                        break
                    seen.setdefault(t, kind)

    orphans = []  # labels whose engine was dropped right after a correct layout

    def touch(ids, except_engine=None):
        for e2, other in engines.items():
            if e2 != except_engine and other.get("clean") and other.get("label_ids") and (other["label_ids"] & ids):
                other["clean"] = None
        orphans[:] = [o for o in orphans if not (o["ids"] & ids)]

    def recheck(step):
        for o in list(orphans):
            now = [_chain_signature(n) for n in o["labels"]]
            if now != o["chains"]:
                last = min(step, len(plan["ops"]) - 1)
                c04.append({"property": "C04", "class": "corrupted_later:chains_changed_after_engine_dropped", "step": last,
                            "detail": {"op": plan["ops"][last], "engine_dropped_at_step": o["since"],
                                       "before": o["chains"][:6], "after": now[:6]}})
                orphans.remove(o)
        for e2, eng in engines.items():
            cl = eng.get("clean")
            if not cl or cl["step"] >= step:
                continue
            bump("quiescent_rechecks")
            labels = eng["labels"]
            bad = check_c04(eng["force"].getLayers(), labels, effective_dist_opts(cl["opts"]), True, {})
            if bad is not None:
                last = min(step, len(plan["ops"]) - 1)
                bad[1]["op"] = plan["ops"][last]
                bad[1]["laid_out_at_step"] = cl["step"]
                c04.append({"property": "C04", "class": "corrupted_later:" + bad[0], "step": last, "detail": bad[1]})
                eng["clean"] = None
            elif _observed_map(labels) != cl["observed"]:
                checkpoints.append({"step": step, "quiescence": True, "engine": e2, "laid_out_at_step": cl["step"],
                                    "op": plan["ops"][min(step, len(plan["ops"]) - 1)]})
                eng["clean"] = None

    for step, op in enumerate(plan["ops"]):
        if plan.get("gc") == "every_op":
            _gc.collect()
        if step:
            recheck(step - 1)
        kind = op[0]
        outcome = "ok"
        if kind == "new_engine":
            e = op[1]
            opts = dict(FORCE_DEFAULTS)
            opts.update(op[2])
            cfg = dict(op[2])
            engines[e] = {"force": Force(cfg), "opts": opts, "set": None, "computed": 0,
                          "sets_seen": set()}
            if len(op) > 3 and op[3] == "caller_keeps":
                # the caller keeps the dict it passed and goes on editing it (to build
                # other engines, say); this engine was configured when it was constructed
                cfg.update({"maxPos": (cfg.get("minPos") or 0) + 77, "nodeSpacing": 17, "density": 0.33,
                            "algorithm": "simple", "stubWidth": 9})
                kept_cfgs.append(cfg)
                bump("probe:caller_edits_dict_it_passed")
        elif kind == "config":
            eng = engines.get(op[1])
            if eng is None:
                outcome = "skipped"
            else:
                eng["force"].set_options(dict(op[2]))
                eng["opts"].update(op[2])
                eng["reconfigured"] = True
                eng["clean"] = None  # an engine may legitimately drop its report on re-configuration
        elif kind == "write_option":
            eng = engines.get(op[1])
            if eng is None:
                outcome = "skipped"
            else:
                try:
                    eng["force"].options[op[2]] = op[3]
                except TypeError:
                    # an engine whose options mapping is read-only refuses the write
                    # loudly: its options are what they were
                    outcome = "refused"
                    bump("probe:option_write_refused")
                else:
                    eng["opts"][op[2]] = op[3]
                    eng["reconfigured"] = True
                    eng["clean"] = None
                    bump("probe:option_written_directly")
        elif kind == "bad_config":
            eng = engines.get(op[1])
            if eng is None:
                outcome = "skipped"
            else:
                bump("fault:rejected_config:configured")
                eng["clean"] = None
                try:
                    eng["force"].set_options(dict(op[2]))
                    outcome = "accepted"
                except Exception as ex:
                    outcome = "raise:" + type(ex).__name__
                    bump("fault:rejected_config:fired")
                # what a rejected call leaves configured is the engine's business
                # (keep the keys, as this tree does, or reject them all): the model
                # follows the options the engine itself reports from here on
                eng["opts"] = {k: v for k, v in eng["force"].options.items() if k != "direction"}
                eng["reconfigured"] = True
                eng["after_fault"] = True
        elif kind == "set_labels":
            e, s, mode, seed = op[1], op[2], op[3], op[4]
            eng = engines.get(e)
            if eng is None:
                outcome = "skipped"
            else:
                if mode == "fresh" or s not in objs:
                    objs[s] = fresh_nodes(s)
                    laid_by.pop(s, None)
                    mode_eff = "fresh"
                else:
                    mode_eff = mode
                if mode_eff == "mixed":
                    # some label objects are reused (with whatever earlier layouts
                    # left on them), the others are fresh objects for the same labels
                    r = random.Random(seed)
                    fresh = fresh_nodes(s)
                    objs[s] = [old if r.random() < 0.5 else new for old, new in zip(objs[s], fresh)]
                    bump("probe:mixed_fresh_and_used_labels")
                lst = list(objs[s])
                spec = [list(t) for t in cur_sets[s]]
                emptied_in_place = False
                if mode_eff == "clones":
                    # copies made with the public Node.clone(): new objects that carry
                    # the originals' current position and layer number
                    lst = [n.clone() for n in lst]
                    bump("probe:clones_of_laid_out_labels")
                if mode_eff == "subset" and len(lst) > 1:
                    # the caller drops some labels and lays the remaining objects out again
                    r = random.Random(seed)
                    k = max(1, int(len(lst) * r.choice([0.3, 0.5, 0.8])))
                    keep = sorted(r.sample(range(len(lst)), k))
                    lst = [lst[i] for i in keep]
                    spec = [spec[i] for i in keep]
                    bump("probe:subset_of_used_labels")
                if mode_eff in ("reversed", "sorted"):
                    # input already in (descending / ascending) position order
                    lst.sort(key=lambda n: (n.idealPos, n.width), reverse=(mode_eff == "reversed"))
                    eng["permuted"] = True
                elif mode_eff == "same_list" and eng.get("last_list") is not None \
                        and eng.get("last_list_set") == s:
                    lst = eng["last_list"]  # the very same list object handed over again
                    spec = eng["last_spec"]
                    bump("probe:nodes_called_with_same_list_object")
                elif mode_eff == "emptied" and eng.get("last_list") is not None:
                    # the caller empties, in place, the list it handed over (nodes([]) is only a
                    # getter, so this is the way to leave an engine without labels)
                    keep = eng["last_list"]
                    keep[:] = []
                    lst = keep
                    spec = []
                    emptied_in_place = True
                    bump("probe:label_list_emptied_in_place")
                elif mode_eff == "inplace" and eng.get("last_list") is not None:
                    # the caller keeps one list object, edits it in place (here: replaces
                    # its content by this set's labels) and hands the same object over again
                    keep = eng["last_list"]
                    keep[:] = lst
                    lst = keep
                    bump("probe:list_edited_in_place_and_handed_over_again")
                if mode_eff in ("permute", "mixed") and (mode_eff == "permute" or seed % 2):
                    random.Random(seed).shuffle(lst)
                    eng["permuted"] = True
                elif mode_eff not in ("reversed", "sorted"):
                    eng["permuted"] = False
                eng["last_list"] = lst
                eng["last_spec"] = spec
                eng["last_list_set"] = s
                if mode_eff != "fresh" and laid_by.get(s) is not None and laid_by[s] != e:
                    bump("fault:handover:configured")
                    if any(n.parent is not None or n.layerIndex != 0 for n in lst):
                        bump("fault:handover:fired")
                    eng["handed_over"] = True
                else:
                    eng["handed_over"] = False
                eng["clean"] = None
                if not emptied_in_place:
                    eng["force"].nodes(lst)
                held = None
                if not lst:
                    # An empty list cannot be handed over (nodes([]) is only a getter), so
                    # what the engine holds after its caller emptied the list is decided by
                    # whether the engine kept the caller's list object (this tree: no labels
                    # any more) or a copy of it (still the labels it was given): both are
                    # legitimate, the model follows what the engine itself reports
                    held = list(eng["force"].nodes() or [])
                if held and eng.get("labels") and {id(n) for n in held} == eng.get("label_ids"):
                    bump("probe:engine_kept_labels_after_list_emptied")
                    outcome = mode_eff + ":engine_keeps_its_copy"
                elif held:
                    bump("probe:engine_kept_labels_after_list_emptied")
                    eng["label_ids"] = {id(n) for n in held}
                    eng["labels"] = held
                    eng["spec"] = [[n.idealPos, n.width] for n in held]
                    outcome = mode_eff + ":engine_reports_other_labels"
                else:
                    eng["label_ids"] = {id(n) for n in lst}
                    eng["set"] = s
                    eng["sets_seen"].add(s)
                    eng["labels"] = list(lst)
                    eng["spec"] = spec
                    outcome = mode_eff
        elif kind in ("compute", "abort_compute", "stack_compute"):
            e = op[1]
            eng = engines.get(e)
            if eng is None or eng["set"] is None:
                outcome = "skipped"
            else:
                s = eng["set"]
                labels = eng["labels"]
                f = eng["force"]
                eng["clean"] = None
                touch(eng["label_ids"], except_engine=e)
                history = _stale_flags(labels, stats)
                if eng.get("foreign_compute"):
                    history.append("other_engine_computed_same_objects")
                    bump("probe:recompute_after_other_engine_used_same_objects")
                    eng["foreign_compute"] = False
                for h in history:
                    bump("probe:stale_%s_at_compute" % h)
                if eng.get("pending_stale"):
                    bump("fault:stale:fired")
                    history.append("planted")
                    eng["pending_stale"] = False
                if eng["computed"] > 0:
                    history.append("recompute")
                    bump("probe:recompute_same_engine")
                if len(eng["sets_seen"]) > 1:
                    history.append("engine_reused")
                    bump("probe:engine_reused_for_other_set")
                if eng.get("permuted"):
                    history.append("permuted")
                    bump("probe:permuted_input")
                if eng.get("handed_over"):
                    history.append("handed_over")
                if eng.get("reconfigured"):
                    history.append("reconfigured")
                    bump("probe:reconfigured_then_compute")
                if eng.get("after_abort"):
                    history.append("after_abort")
                if eng.get("after_stack"):
                    history.append("after_stack_exhaustion")
                if kind == "compute":
                    try:
                        f.compute()
                    except Exception as ex:
                        outcome = "raise:" + type(ex).__name__
                elif kind == "abort_compute":
                    bump("fault:abort:configured")
                    k, scope, func = seams.abort_point(f.compute, op[3] if len(op) > 3 else "any", op[2],
                                                       op[5] if len(op) > 5 else None)
                    exc_name = op[4] if len(op) > 4 else "SimAbort"
                    exc = {"SimAbort": seams.SimAbort, "MemoryError": MemoryError,
                           "KeyboardInterrupt": KeyboardInterrupt}[exc_name]
                    tr = seams.AbortTracer(k, scope, exc, func)
                    if func:
                        bump("probe:abort_placed_by_function")
                    try:
                        with tr:
                            f.compute()
                    except exc:
                        outcome = "aborted" if tr.fired else "raise:" + exc_name
                    except Exception as ex:
                        outcome = "raise:" + type(ex).__name__
                    if tr.fired:
                        bump("probe:abort_as_" + exc_name)
                        bump("fault:abort:fired")
                        fn, func = tr.where
                        key = {"createStub": "abort_in_createStub", "removeStub": "abort_in_removeStub"}.get(func)
                        if key is None:
                            if func == "<lambda>":
                                key = "abort_in_sort_key"
                            elif fn == "vpsc.py":
                                key = "abort_in_solver"
                            elif fn == "distributor.py":
                                key = "abort_in_distributor"
                            elif fn == "removeOverlap.py":
                                key = "abort_in_removeOverlap"
                            elif fn == "force.py":
                                key = "abort_in_force"
                            else:
                                key = "abort_in_node"
                        bump("probe:" + key)
                        eng["after_abort"] = True
                        eng["after_fault"] = True
                    else:
                        bump("fault:abort:not_fired")
                else:
                    bump("fault:stack_exhaustion:configured")
                    try:
                        with seams.StackLimit(op[2]):
                            f.compute()
                    except RecursionError:
                        outcome = "stack_exhausted"
                        bump("fault:stack_exhaustion:fired")
                        eng["after_stack"] = True
                        eng["after_fault"] = True
                    except Exception as ex:
                        outcome = "raise:" + type(ex).__name__
                if labels and objs.get(s) and labels[0] is objs[s][0]:
                    laid_by[s] = e
                for e2, other in engines.items():
                    if e2 != e and labels and other.get("labels") and other["labels"][0] is labels[0]:
                        other["foreign_compute"] = True
                if outcome == "ok":
                    if eng.get("after_abort") and kind == "compute":
                        bump("probe:recompute_after_abort")
                    if eng.get("after_stack") and kind == "compute":
                        bump("probe:recompute_after_stack_exhaustion")
                    judge(step, e, history)
                    eng["computed"] += 1
                    eng["after_abort"] = False
                    eng["after_stack"] = False
                    eng["reconfigured"] = False
                elif outcome.startswith("raise:"):
                    # the reference decides whether raising is what fresh code does too
                    checkpoints.append({"step": step, "opts": dict(eng["opts"]), "set": s,
                                        "labels": [list(t) for t in eng["spec"]], "observed": {"raise": outcome[6:]},
                                        "history": history, "fault_config": eng.get("after_fault", False)})
        elif kind == "inspect":
            # read-only use of the public API between layouts: metrics, paths, clones,
            # getters.  Nothing here may change a result (the quiescence re-check watches)
            eng = engines.get(op[1])
            if eng is None or not eng.get("labels"):
                outcome = "skipped"
            else:
                from labella import metrics as M

                f = eng["force"]
                bump("probe:readonly_inspection")
                try:
                    lay = f.getLayers()
                    f.nodes()
                    dict(f.options)
                    for fn in ("displacement", "pathLength", "overlapSpace"):
                        if lay:
                            getattr(M, fn)(lay)
                            try:
                                f.metric(fn)
                            except Exception:
                                pass
                    if lay:
                        M.overflowSpace(lay, f.options.get("minPos"), f.options.get("maxPos"))
                        M.overlapCount(lay, 2)
                    for n in eng["labels"]:
                        n.getPathToRoot()
                        n.getPathFromRoot()
                        n.getRoot()
                        n.getLayerIndex()
                        n.isStub()
                        n.displacement()
                        n.clone()
                        repr(n)
                except Exception as ex:
                    outcome = "raise:" + type(ex).__name__
        elif kind == "forget":
            # the caller drops its own references to a label set: the objects live on
            # only as long as some engine still holds them
            if op[1] in objs:
                del objs[op[1]]
                laid_by.pop(op[1], None)
                bump("probe:caller_dropped_label_set")
            else:
                outcome = "skipped"
        elif kind == "drop_engine":
            # the engine (and its reported layering) is dropped; the caller keeps the labels.
            # Their stub chains are part of the layout result and must survive.
            eng = engines.pop(op[1], None)
            if eng is None:
                outcome = "skipped"
            else:
                if eng.get("clean") and eng.get("labels"):
                    orphans.append({"labels": list(eng["labels"]), "ids": set(eng["label_ids"]),
                                    "chains": [_chain_signature(n) for n in eng["labels"]],
                                    "since": step})
                    bump("probe:engine_dropped_labels_kept")
                del eng
        elif kind == "rewidth":
            # labels are re-measured: every label at some positions gets a new width
            # (one width per position is kept), on the existing objects
            s, seed = op[1], op[2]
            if s not in objs or len(objs[s]) != len(cur_sets[s]):
                outcome = "skipped"
            else:
                r = random.Random(seed)
                positions = sorted({t[0] for t in cur_sets[s]})
                chosen = set(r.sample(positions, max(1, len(positions) // 2)))
                neww = {p: r.choice([4, 9.5, 16, 33, 70]) for p in chosen}
                # every live object of this set - also older generations still held by an
                # engine - is re-measured, so that labels sharing a position keep sharing a width
                live = {id(n): n for n in objs[s]}
                for other in engines.values():
                    if other.get("set") == s and other.get("labels"):
                        for n in other["labels"]:
                            live[id(n)] = n
                touch(set(live))
                changed_ids = set()
                for n in live.values():
                    if n.idealPos in neww:
                        n.width = neww[n.idealPos]
                        changed_ids.add(id(n))
                for t in cur_sets[s]:
                    if t[0] in neww:
                        t[1] = neww[t[0]]
                for other in engines.values():
                    if other.get("labels") and any(id(n) in changed_ids for n in other["labels"]):
                        # the label multiset this engine holds, after re-measuring
                        other["spec"] = [[n.idealPos, n.width] for n in other["labels"]]
                        other["last_spec"] = other["spec"]
                        other["pending_stale"] = True
                bump("probe:labels_remeasured_between_computes")
        elif kind == "stale":
            s, what, seed = op[1], op[2], op[3]
            bump("fault:stale:configured")
            if s not in objs:
                outcome = "skipped"
            else:
                r = random.Random(seed)
                changed = False
                touch({id(n) for n in objs[s]})
                if what == "usercalls":
                    # the user calls public Node methods between layouts
                    for n in objs[s]:
                        k = r.random()
                        if k < 0.3:
                            n.moveToIdealPosition()
                        elif k < 0.5:
                            n.removeStub()
                        elif k < 0.6 and n.parent is not None:
                            n.parent.removeStub()
                        changed = True
                elif what == "solve":
                    # the user runs the overlap removal directly on the labels
                    from labella.removeOverlap import removeOverlap as _ro

                    try:
                        _ro(list(objs[s]), {"nodeSpacing": r.choice([0, 3, 12]), "minPos": None, "maxPos": None})
                    except Exception:
                        pass
                    changed = True
                for n in objs[s]:
                    if what in ("pos", "all") and r.random() < 0.7:
                        n.currentPos = r.choice([n.idealPos + r.randrange(-300, 300), -1e6, 12345.5])
                        changed = True
                    if what in ("layer", "all") and r.random() < 0.7:
                        n.layerIndex = r.randrange(0, 6)
                        changed = True
                    if what in ("stub", "all") and r.random() < 0.6:
                        st = n
                        for _ in range(r.randrange(1, 4)):
                            st = st.createStub(r.choice([1, 5, 0.5]))
                            st.currentPos = r.randrange(-50, 500)
                            st.layerIndex = r.randrange(0, 4)
                        changed = True
                if changed:
                    for other in engines.values():
                        if other.get("labels") and other["labels"][0] is objs[s][0]:
                            other["pending_stale"] = True
                outcome = "planted" if changed else "noop"
        elif kind == "distribute":
            s, dopts, mode = op[1], op[2], op[3]
            eff = dict(DIST_DEFAULTS)
            eff.update(dopts)
            if mode == "existing" and s in objs:
                # only a producer of stale state: stubs/positions left on used labels
                touch({id(n) for n in objs[s]})
                try:
                    Distributor(dict(dopts)).distribute(list(objs[s]))
                except Exception as ex:
                    outcome = "raise:" + type(ex).__name__
                bump("probe:distribute_on_engine_labels")
                for other in engines.values():
                    if other.get("labels") and other["labels"][0] is objs[s][0]:
                        other["pending_stale"] = True
                        bump("fault:stale:configured")
            else:
                nodes = fresh_nodes(s)
                try:
                    if mode == "reuse" and shared_dist:
                        # one stand-alone Distributor kept by the caller, re-configured
                        # through its public options dict and used again
                        dist = shared_dist[0]
                        dist.options.update(dict(dopts))
                        shared_eff.update(dopts)
                        eff = dict(shared_eff)
                        bump("probe:standalone_distributor_reused")
                    else:
                        dist = Distributor(dict(dopts))
                        if not shared_dist:
                            shared_dist.append(dist)
                            shared_eff.clear()
                            shared_eff.update(eff)
                    layers = dist.distribute(list(nodes))
                    bump("probe:distribute_standalone")
                    bad = check_c04(layers, nodes, eff, False, stats)
                    if bad is not None:
                        bad[1]["op"] = op
                        c04.append({"property": "C04", "class": "distribute:" + bad[0], "step": step, "detail": bad[1]})
                except Exception as ex:
                    outcome = "raise:" + type(ex).__name__
                    c04.append({"property": "C04", "class": "distribute_raised", "step": step,
                                "detail": {"op": op, "exception": type(ex).__name__}})
        else:
            raise HarnessError("unknown op %r" % (op,))
        log.append([step, kind, outcome])
    recheck(len(plan["ops"]))
    stats["ops"] = len(log)
    if len(plan["ops"]) > 100:
        stats["probe:long_lived_process_run"] = 1
    return {"checkpoints": checkpoints, "c04": c04, "stats": stats, "log": log}


def _reference(job):
    """Pristine child: fresh engine, fresh labels in canonical order."""
    if job.get("warnings") == "error":
        import warnings

        warnings.simplefilter("error")
    if job.get("pyopt"):
        from ..util import reimport_labella

        reimport_labella(optimize=1)
    from labella.force import Force
    from labella.node import Node

    if not job.get("keep_stdout"):
        seams.silence_stdio()
    sys.setrecursionlimit(3000)
    labels = sorted(job["labels"], key=lambda t: (t[0], t[1]))
    nodes = [Node(p, w, data={"i": i}) for i, (p, w) in enumerate(labels)]
    user_opts = {k: v for k, v in job["opts"].items()}
    f = Force(user_opts)
    f.nodes(nodes)
    try:
        f.compute()
    except Exception as ex:
        return {"raise": type(ex).__name__}
    return _observed_map(nodes)


def execute(plan):
    if plan.get("cold"):
        from ..driver import cold_run

        res = cold_run(NAME, plan)
    else:
        res = run_isolated(_run, plan)
    st = res["stats"]
    counters = dict(st)
    violations = []
    cache = {}
    judged = 0
    nontrivial = False
    for cp in res["checkpoints"]:
        if cp.get("quiescence"):
            if not any(v["property"] == "C06" for v in violations):
                violations.append({
                    "property": "C06", "class": "layout_changed_without_compute", "step": min(cp["step"], len(plan["ops"]) - 1),
                    "detail": {"engine": cp["engine"], "laid_out_at_step": cp["laid_out_at_step"],
                               "changed_after_op": cp["op"] if cp["step"] < len(plan["ops"]) else "end of run",
                               "note": "positions/layers of an engine's labels changed although neither the engine nor these label objects were used"}})
            continue
        key = h64([cp["opts"], sorted(cp["labels"])])
        if key not in cache:
            cache[key] = run_isolated(_reference, {"opts": cp["opts"], "labels": cp["labels"], "pyopt": plan.get("pyopt"),
                                                   "warnings": plan.get("warnings")})
            counters["references_computed"] = counters.get("references_computed", 0) + 1
            if plan.get("cold_crosscheck") and not counters.get("cold_reference_crosschecks"):
                from ..driver import cold_reference

                cold = cold_reference(NAME, {"opts": cp["opts"], "labels": cp["labels"]})
                counters["cold_reference_crosschecks"] = 1
                if cold != cache[key]:
                    raise HarnessError("fork-from-pristine reference differs from a cold interpreter")
        want = cache[key]
        judged += 1
        if cp["history"]:
            nontrivial = True
        cfg = "fault_injecting" if cp["fault_config"] else "fault_free"
        counters["judged_computes_" + cfg] = counters.get("judged_computes_" + cfg, 0) + 1
        if cp["observed"] != want and not any(v["property"] == "C06" for v in violations):
            diff = _map_diff(want, cp["observed"])
            violations.append({
                "property": "C06",
                "class": "layout_differs_from_fresh:" + ("after_fault" if cp["fault_config"] else "no_fault"),
                "step": cp["step"],
                "detail": {"op": plan["ops"][cp["step"]], "history": cp["history"], "opts": cp["opts"],
                           "n_labels": len(cp["labels"]), "first_differences": diff},
            })
    for v in res["c04"]:
        if not any(x["property"] == "C04" for x in violations):
            violations.append(v)
    counters["checked_steps"] = judged + st.get("probe:distribute_standalone", 0)
    fired = sum(st.get("fault:%s:fired" % k, 0) for k in FAULT_KINDS)
    counters["runs_fault_injecting" if fired else "runs_fault_free"] = 1
    algs = sorted({(o[2].get("algorithm") or "default") for o in plan["ops"] if o[0] in ("new_engine", "config")})
    sets = {
        "interleavings(op-kind/engine/set sequences)": [h64([(o[0], o[1], o[2] if o[0] == "set_labels" else None) for o in plan["ops"]])],
        "layer_shape_signatures": [h64([cp["observed"].get(k) for k in sorted(cp["observed"])][:40]) for cp in res["checkpoints"] if "observed" in cp][:8],
        "label_count_x_algorithm": [h64([len(s) for s in plan["sets"]] + algs)],
    }
    return {
        "violations": violations,
        "counters": counters,
        "sets": sets,
        "digest": digest([res["log"], [[cp["step"], cp.get("observed", "quiescence")] for cp in res["checkpoints"]],
                          [[v["class"], v["step"]] for v in res["c04"]]]),
        "nontrivial": nontrivial and judged > 0,
    }


def _map_diff(want, got):
    out = []
    for k in sorted(set(want) | set(got)):
        if want.get(k) != got.get(k):
            out.append({"label(pos|width)": k, "fresh": want.get(k), "history": got.get(k)})
        if len(out) >= 4:
            break
    return out


def simulated_time(counters):
    return {"note": "the ENGINE simulation has no clock; progress is counted in operations",
            "operations": counters.get("ops", 0)}


# ------------------------------------------------------------------ shrinking

def simplifiers(plan, prop):
    for cand in _simplifiers(plan, prop):
        if valid(cand):
            yield cand


def _simplifiers(plan, prop):
    # fewer labels per set
    for si, s in enumerate(plan["sets"]):
        if len(s) > 1:
            half = len(s) // 2
            for cand in (s[:half], s[half:]):
                if cand:
                    p = copy.deepcopy(plan)
                    p["sets"][si] = cand
                    yield p
            if len(s) <= 12:
                for j in range(len(s)):
                    p = copy.deepcopy(plan)
                    del p["sets"][si][j]
                    yield p
    for i, op in enumerate(plan["ops"]):
        if op[0] in ("new_engine", "config", "distribute"):
            oi = 2
            for k in list(op[oi].keys()):
                p = copy.deepcopy(plan)
                del p["ops"][i][oi][k]
                if op[0] == "config" and not p["ops"][i][oi]:
                    continue
                yield p
        if op[0] == "set_labels" and op[3] != "same":
            p = copy.deepcopy(plan)
            p["ops"][i][3] = "same"
            yield p
        if op[0] == "stale" and op[2] == "all":
            for w in ("pos", "layer", "stub"):
                p = copy.deepcopy(plan)
                p["ops"][i][2] = w
                yield p
        if op[0] in ("abort_compute", "stack_compute"):
            p = copy.deepcopy(plan)
            p["ops"][i] = ["compute", op[1]]
            yield p
    # simpler numbers
    for si, s in enumerate(plan["sets"]):
        if len(s) <= 8:
            for j, (pos, w) in enumerate(s):
                if pos != int(pos):
                    p = copy.deepcopy(plan)
                    newpos = int(pos)
                    ws = {a: b for a, b in p["sets"][si]}
                    if newpos in ws and ws[newpos] != w:
                        continue
                    p["sets"][si][j][0] = newpos
                    yield p


def finding_signature(plan, violation):
    sig = {"class": violation["class"], "op_kinds": [o[0] for o in plan["ops"]]}
    exc = (violation.get("detail") or {}).get("exception")
    if exc:
        sig["exception"] = exc
    if _has_empty_interval(plan):
        sig["input"] = "label_with_empty_ideal_interval"
    return sig
