# -*- coding: utf-8 -*-
"""SCALE simulation - decides C12 (the linear scale is the affine map through
its reported end points; copies are isolated).  DESIGN.md section 4.3.

System under simulation: a pool of up to 5 LinearScale objects related by
copy() (copies of copies included).  The schedule is the order of
domain/range/clamp/nice/copy/drop calls over the pool; the coupling seam is
shared mutable state between a scale and its copies.  After every operation
every scale in the pool is checked against a small rational reference model
built from the state it *reports*, and every scale that was not the target of
the operation must be bit-for-bit unchanged.
"""

import copy
import math
from fractions import Fraction

from ..iso import run_isolated
from ..util import HarnessError, canon, digest, h64

NAME = "scale"
PROPERTIES = ["C12"]

BUDGET = {
    "quick": {"runs": 60000, "wall": 55, "chunk": 100, "shrink_evals": 400},
    "thorough": {"runs": 3000000, "wall": 840, "chunk": 250, "shrink_evals": 800},
}

FAULT_KINDS = ["alias", "rejected_call"]
PROBES = ["copy_of_copy", "nice_on_scale_with_living_relative",
          "reversed_domain", "reversed_range", "clamped_scale_checked", "degenerate_domain",
          "pool_size_5", "drop_then_use_relative", "domain_on_aliased", "range_on_aliased",
          "clamp_on_aliased", "magnitude_tiny", "magnitude_huge", "rejected_call_raised",
          "readonly_op", "unobserved_step", "range_list_edited_in_place_and_passed_again",
          "foreign_library_activity", "constructed_with_arguments", "getter_to_setter_transfer",
          "range_list_shared_through_constructor", "deepcopy_of_scale", "long_copy_chain", "end_point_nudged",
          "custom_interpolator_bystander"]

RULE = (
    "Each run draws (from one PRNG seeded by sha256(VERIF_SEED:scale:i)) a magnitude regime "
    "(1e-6..1e9), orientation and clamp mix, and a history of 8-25 operations "
    "NEW/DOMAIN/RANGE/CLAMP/NICE/COPY/DROP, read-only TICKS/TICKFORMAT/CALL/INVERT (+ rejected calls "
    "nice(0), domain(['x',1]), domain([None,1]) as faults) over a pool of <=5 (thorough: <=8, up to 60 ops) "
    "LinearScale objects related by copy(). The run observes after every op, only at the end, or at a "
    "seeded quarter of the steps (observer effect). At every observation: "
    "I1 end points exact, I2 every scale not targeted by a state-changing op since the last observation "
    "is unchanged (reported state and mapped probe values), I3 copy equals original, I4 setters echo, I5 affine/monotone/invertible/clamped "
    "against an exact rational model of the reported state. A run is non-trivial if at least "
    "one state-changing operation hit a scale that had a living relative (copy or original) and "
    "at least one step was checked; distinct = distinct (op-kind, target, relation) sequences."
)

ASSUMPTIONS = [
    "the caller (the simulator) never mutates a list it received from a scale, and mutates a list it passed only in the atomic RANGE_REUSE step (edit in place, pass the same object again)",
    "floating-point tolerance for I5: 64*eps*(|r0|+|r1|)(1+|t|) forward, conditioned by |d1-d0|/|r1-r0| for invert; end points (I1) and isolation (I2) are exact comparisons",
    "a rejected call (nice(0), domain(['x',1]), domain([None,1])) may raise or be accepted; either way every scale, the target included, must still map the end points of the domain it reports (shape-invalid arguments such as domain([1]) are not generated)",
    "magnitudes and histories are sampled; a clean batch is evidence, not proof",
]

COMPONENTS = {
    "real": ["labella.scale.LinearScale (domain, range, clamp, nice, copy, __call__, invert)",
             "labella.scale.d3_scale_linearNice / d3_scale_nice / d3_scale_linearTickRange"],
    "simulated": ["operation history and aliasing structure over the pool (seeded scheduler)"],
    "stub": [],
}

EPS = 2.0 ** -52


# ------------------------------------------------------------------ generation

def _val(rng, mag_lo, mag_hi, style):
    if style == "special":
        # small integers, where equal hashes (hash(-1) == hash(-2)), interned
        # objects and 'nice' fixed points live
        return float(rng.choice([-2, -1, -1, -2, 0, 1, 2, 8, 10, 100]))
    e = rng.uniform(mag_lo, mag_hi)
    m = 10.0 ** e
    if style == "int":
        v = float(max(1, int(m * rng.uniform(0.1, 1.0))))
    elif style == "round":
        v = float("%.2g" % (m * rng.uniform(0.1, 1.0)))
    else:
        v = m * rng.uniform(0.1, 1.0)
    if rng.random() < 0.35:
        v = -v
    return v


def _pair(rng, mag_lo, mag_hi, style, allow_zero=True):
    for _ in range(50):
        if allow_zero and rng.random() < 0.25:
            a = 0.0
        else:
            a = _val(rng, mag_lo, mag_hi, style)
        b = _val(rng, mag_lo, mag_hi, style)
        if style != "special" and rng.random() < 0.3:
            # nearby end points: same sign and magnitude
            b = a + abs(a if a else b) * rng.choice([0.03, 0.5, 1.7, -0.4])
        elif style != "special" and rng.random() < 0.1:
            # narrow but non-degenerate: span far below the magnitude
            b = a + abs(a if a else b) * rng.choice([1e-6, 3e-9, 1e-10, -2e-12, 5e-14])
        if a != b and math.isfinite(a) and math.isfinite(b):
            if rng.random() < 0.5:
                a, b = b, a
            return [a, b]
    return [0.0, 1.0]


def gen_plan(rng, tier):
    regime = rng.choice(["unit", "tiny", "small", "mid", "huge", "mixed"])
    lo, hi = {"unit": (-1, 1), "tiny": (-6, -3), "small": (-3, 1), "mid": (0, 4),
              "huge": (5, 9), "mixed": (-6, 9)}[regime]
    style = rng.choice(["float", "float", "round", "int", "special"])
    clamp_p = rng.choice([0.0, 0.1, 0.3])
    fault_p = rng.choice([0.0, 0.0, 0.05, 0.12])
    copy_p = rng.choice([0.1, 0.2, 0.3])
    nice_p = rng.choice([0.1, 0.2, 0.35])
    nops = rng.randrange(8, 26) if tier == "quick" else rng.randrange(8, 61)
    max_pool = 5 if tier == "quick" else 8
    read_p = rng.choice([0.0, 0.1, 0.25])
    foreign_p = rng.choice([0, 0, 0, 0.08])
    ops = []
    pool = 1
    for _ in range(nops):
        r = rng.random()
        i = rng.randrange(pool)
        if foreign_p and rng.random() < foreign_p:
            ops.append(["foreign", None, rng.choice(["svg", "tex", "linear"])])
            continue
        if rng.random() < read_p:
            k = rng.choice(["ticks", "tickformat", "call", "invert"])
            if k in ("ticks", "tickformat"):
                ops.append([k, i, rng.choice([None, 2, 5, 10, 20])])
            else:
                ops.append([k, i, rng.choice([0.0, 1.0, 0.5, rng.random(), 1.5, -0.25])])
            continue
        if r < copy_p and pool < max_pool:
            ops.append(["copy", i])
            pool += 1
        elif r < copy_p + nice_p:
            ops.append(["nice", i, rng.choice([None, None, 1, 2, 3, 5, 10, 20, 100, 0.5, 2.5])])
        elif r < copy_p + nice_p + 0.03:
            ops.append(["chain", i, _pair(rng, lo, hi, style), _pair(rng, lo, hi, rng.choice([style, "int"])),
                        rng.random() < 0.4])
        elif r < copy_p + nice_p + 0.05:
            ops.append(["interp", i])
        elif r < copy_p + nice_p + 0.08 and pool > 1:
            ops.append([rng.choice(["domain_from", "range_from"]), i, rng.randrange(pool)])
        elif r < copy_p + nice_p + 0.10:
            ops.append(["nudge", i, rng.randrange(2), rng.choice([1e-7, -3e-8, 1e-9, 2e-6])])
        elif r < copy_p + nice_p + 0.11 and pool < max_pool:
            ops.append(["deepcopy", i])
            pool += 1
        elif r < copy_p + nice_p + 0.115:
            ops.append(["copy_chain", i, rng.choice([40, 1200])])
        elif r < copy_p + nice_p + 0.13:
            if rng.random() < 0.5:
                ops.append(["bystander", i])
            else:
                # the bystander comes first; then an ordinary scale is moved onto its end points
                dd, rr, cc = _pair(rng, lo, hi, style), _pair(rng, lo, hi, rng.choice([style, "int"])), rng.random() < 0.3
                ops.append(["bystander", i, dd, rr, cc])
                ops.append(["chain", i, list(dd), list(rr), cc])
        elif r < copy_p + nice_p + 0.22:
            d = _pair(rng, lo, hi, style)
            if rng.random() < 0.03:
                d = [d[0], d[0]]  # degenerate: switches I1/I5 off for that scale only
            ops.append(["domain", i, d] + rng.choice([[], [], [], ["tuple"], ["int"]]))
        elif r < copy_p + nice_p + 0.40:
            if rng.random() < 0.2:
                ops.append(["range_reuse", i, _pair(rng, lo, hi, rng.choice([style, "int"]))])
            else:
                ops.append(["range", i, _pair(rng, lo, hi, rng.choice([style, "int"]))]
                           + rng.choice([[], [], [], ["tuple"], ["int"]]))
        elif r < copy_p + nice_p + 0.40 + clamp_p:
            ops.append(["clamp", i, rng.choice([True, True, True, False, False, 2, "yes", 0.5, 0, ""])])
        elif r < copy_p + nice_p + 0.40 + clamp_p + fault_p:
            ops.append(rng.choice([["bad_nice", i], ["bad_domain", i], ["bad_domain", i, "none"]]))
        elif r < copy_p + nice_p + 0.40 + clamp_p + fault_p + 0.05 and pool > 1:
            ops.append(["drop", i])
            pool -= 1
        elif pool < max_pool and rng.random() < 0.3:
            if rng.random() < 0.3:
                ops.append(["new", "args", _pair(rng, lo, hi, style), _pair(rng, lo, hi, rng.choice([style, "int"])),
                            rng.random() < 0.3, rng.randrange(pool) if rng.random() < 0.4 else None,
                            rng.choice(["all", "all", "clamp_only", "domain_only", "range_only"])])
            else:
                ops.append(["new"])
            pool += 1
        else:
            ops.append(["domain", i, _pair(rng, lo, hi, style)])
    fr = [0.0, 1.0, 0.5, -0.5, 2.0, 0.25, rng.random(), rng.random(), 1 + rng.random(), -rng.random()]
    # observer effect: the checks themselves call the scales; how often they do
    # is a swarm parameter so that histories without intermediate calls exist too
    om = rng.random()
    if om < 0.5:
        observe = "all"
    elif om < 0.75:
        observe = "end"
    else:
        observe = sorted(rng.sample(range(len(ops)), max(1, len(ops) // 4)))
    plan = {"sim": NAME, "regime": regime, "style": style, "ops": ops, "fractions": fr,
            "observe": observe, "max_pool": max_pool}
    g = rng.random()
    if g < 0.1:
        plan["gc"] = "disabled"      # environment: no cyclic garbage collection during the run
    elif g < 0.2:
        plan["gc"] = "every_op"      # ... or a full collection after every operation
    if rng.random() < 0.05:
        plan["warnings"] = "error"   # environment: warnings escalated to errors around the setters
    return plan


def plan_signature(plan):
    return [plan["regime"], [(o[0], o[1] if len(o) > 1 else None) for o in plan["ops"]]]


def well_formed(plan):
    """Re-target ops after shrinking so that every index is valid."""
    pool = 1
    cap = plan.get("max_pool", 5)
    ops = []
    for op in plan["ops"]:
        op = list(op)
        if op[0] == "foreign":
            pass
        elif op[0] == "new":
            if pool >= cap:
                continue
            pool += 1
        elif not isinstance(op[1], int):
            continue
        else:
            op[1] = op[1] % pool
            if op[0] in ("copy", "deepcopy"):
                if pool >= cap:
                    continue
                pool += 1
            elif op[0] == "drop":
                if pool <= 1:
                    continue
                pool -= 1
        ops.append(op)
    if not ops:
        return None
    plan["ops"] = ops
    if isinstance(plan.get("observe"), list):
        # step indices lose their meaning when ops are dropped
        plan["observe"] = "all" if len(ops) <= 6 else "end"
    return plan


# ------------------------------------------------------------------ model + invariants

def _reported(s):
    d = list(s.domain())
    r = list(s.range())
    return d, r, bool(s.clamp())


def _call(f, x):
    try:
        return ["ok", f(x)]
    except ZeroDivisionError:
        return ["raise", "ZeroDivisionError"]


def _probe_points(d, r, fr):
    d0, d1 = d[0], d[1]
    xs = [d0 + (d1 - d0) * f for f in fr]
    r0, r1 = r[0], r[1]
    ys = [r0 + (r1 - r0) * f for f in fr[:6]]
    return xs, ys


def _num(x):
    # numbers are compared by value: [0, 1] and [0.0, 1.0] are the same domain
    if isinstance(x, bool):
        return x
    if isinstance(x, int):
        try:
            return float(x)
        except OverflowError:
            return x
    if isinstance(x, (list, tuple)):
        return [_num(e) for e in x]
    return x


def snapshot(s, fr):
    d, r, c = _reported(s)
    try:
        xs, ys = _probe_points(d, r, fr)
        vals = [_call(s, x) for x in xs] + [_call(s.scale, xs[2]), _call(s.scale, xs[3]), _call(s.scale, xs[4])]
        inv = [_call(s.invert, y) for y in ys]
    except (TypeError, ValueError, IndexError) as e:
        # the scale reports something that is not a pair of numbers (only
        # reachable after a rejected call); check_scale() will judge it
        return ["reported_state_not_numeric", repr(d)[:80], repr(r)[:80], c]
    return canon(_num([d, r, c, vals, inv]))


def _model(d, r, x):
    """Exact rational value of the affine map through (d0,r0),(d1,r1) at x."""
    d0, d1, r0, r1, x = map(Fraction, (d[0], d[1], r[0], r[1], x))
    t = (x - d0) / (d1 - d0)
    return r0 + (r1 - r0) * t, t


def check_scale(s, fr, stats):
    """Returns None or (class, detail) for the first invariant that fails on s."""
    d, r, clamp = _reported(s)
    if len(d) != 2 or len(r) != 2:
        return ("I4_shape", {"domain": canon(d), "range": canon(r)})
    d0, d1, r0, r1 = d[0], d[1], r[0], r[1]
    if d0 == d1:
        stats["probe:degenerate_domain"] = stats.get("probe:degenerate_domain", 0) + 1
        return None
    if d0 > d1:
        stats["probe:reversed_domain"] = stats.get("probe:reversed_domain", 0) + 1
    if r0 > r1:
        stats["probe:reversed_range"] = stats.get("probe:reversed_range", 0) + 1
    # I1 end points, exact
    y0, y1 = s(d0), s(d1)
    if y0 != r0 or y1 != r1:
        return ("I1_endpoints", {"reported_domain": canon(d), "reported_range": canon(r),
                                 "s(d0)": canon(y0), "s(d1)": canon(y1)})
    if r0 == r1:
        return None
    if clamp:
        stats["probe:clamped_scale_checked"] = stats.get("probe:clamped_scale_checked", 0) + 1
    xs, ys = _probe_points(d, r, fr)
    rsum = abs(r0) + abs(r1)
    dsum = abs(d0) + abs(d1)
    cond = abs(d1 - d0) / abs(r1 - r0)
    lo_r, hi_r = min(r0, r1), max(r0, r1)
    prev = None
    pts = []
    for idx, x in enumerate(xs):
        if not math.isfinite(x):
            continue
        # both public entry points are judged: s(x) and s.scale(x)
        y = s(x) if idx % 2 == 0 else s.scale(x)
        ym, t = _model(d, r, x)
        tf = float(t)
        tol = 64 * EPS * rsum * (1 + abs(tf)) + 1e-300
        inside = 0 <= t <= 1
        if clamp:
            if y < lo_r - tol or y > hi_r + tol:
                return ("I5_clamp_range", {"x": canon(x), "y": canon(y), "range": canon(r)})
            if inside:
                if abs(Fraction(y) - ym) > tol:
                    return ("I5_clamp_inside", {"x": canon(x), "y": canon(y), "model": float(ym)})
            else:
                want = r0 if t < 0 else r1
                if y != want:
                    return ("I5_clamp_outside", {"x": canon(x), "y": canon(y), "want": canon(want)})
        else:
            if abs(Fraction(y) - ym) > tol:
                return ("I5_affine", {"x": canon(x), "y": canon(y), "model": float(ym),
                                      "domain": canon(d), "range": canon(r)})
            pts.append((Fraction(x), y, ym, tol))
        if (not clamp) or inside:
            xb = s.invert(y)
            tolx = 64 * EPS * (dsum * (1 + abs(tf)) + rsum * (1 + abs(tf)) * cond) * 2 + 1e-300
            if abs(Fraction(xb) - Fraction(x)) > tolx:
                return ("I5_invert", {"x": canon(x), "y": canon(y), "invert(y)": canon(xb),
                                      "domain": canon(d), "range": canon(r)})
    # strict monotonicity on separated probes
    pts.sort(key=lambda p: p[0])
    sign = 1 if (Fraction(r1) - Fraction(r0)) * (Fraction(d1) - Fraction(d0)) > 0 else -1
    for a, b in zip(pts, pts[1:]):
        if a[0] == b[0]:
            continue
        true_diff = (b[2] - a[2]) * sign
        if true_diff > 4 * (a[3] + b[3]):
            if (b[1] - a[1]) * sign <= 0:
                return ("I5_monotone", {"x1": float(a[0]), "x2": float(b[0]),
                                        "y1": canon(a[1]), "y2": canon(b[1])})
    # s(invert(y)) = y
    for y in ys:
        if clamp:
            continue
        x = s.invert(y)
        y2 = s(x)
        ty = (Fraction(y) - Fraction(r0)) / (Fraction(r1) - Fraction(r0))
        tfy = abs(float(ty))
        tol = 64 * EPS * (rsum * (1 + tfy) + dsum * (1 + tfy) / cond) * 2 + 1e-300
        if abs(Fraction(y2) - Fraction(y)) > tol:
            return ("I5_invert2", {"y": canon(y), "invert(y)": canon(x), "s(invert(y))": canon(y2)})
    return None


# ------------------------------------------------------------------ execution (child)

def _foreign_activity(backend):
    import datetime

    from labella.scale import LinearScale as LS
    from labella.timeline import TimelineSVG, TimelineTex

    items = [{"time": datetime.datetime(2001, 1, 1 + 3 * i), "width": 30, "text": "t%d" % i} for i in range(4)]
    if backend == "linear":
        items = [{"time": 10.0 * i, "width": 30} for i in range(4)]
        TimelineSVG(items, options={"scale": LS()}).export()
    elif backend == "tex":
        TimelineTex(items, options={}).export()
    else:
        TimelineSVG(items, options={}).export()


def _run(plan):
    import gc as _gc

    import warnings as _warnings

    if plan.get("gc") == "disabled":
        _gc.disable()
    from labella.scale import LinearScale

    fr = plan["fractions"]
    observe = plan.get("observe", "all")
    nops = len(plan["ops"])
    if observe == "all":
        observed = set(range(nops))
    elif observe == "end":
        observed = {nops - 1}
    else:
        observed = set(observe) | {nops - 1}
    stats = {}
    log = []
    violations = []
    pool = [LinearScale()]
    family = [0]
    next_family = 1
    generation = [0]
    exempt = {}      # id(scale) -> setters still needed after a rejected call
    held = {}          # id(scale) -> (scale, its .scale accessor, its .invert accessor) taken earlier
    bystanders = []    # scales with a custom interpolator, alive but not judged
    passed_range = {}  # id(scale) -> the list object the caller last passed to range()
    last_snap = {}   # id(scale) -> snapshot taken at the last observation
    touched = set()  # ids of scales that were the target of a state-changing op since then
    checked = 0
    if observe == "all":
        last_snap[id(pool[0])] = snapshot(pool[0], fr)

    def bump(k, n=1):
        stats[k] = stats.get(k, 0) + n

    for step, op in enumerate(plan["ops"]):
        if plan.get("gc") == "every_op":
            _gc.collect()
        kind = op[0]
        target = None
        if kind not in ("new", "foreign"):
            if not isinstance(op[1], int) or op[1] >= len(pool):
                raise HarnessError("ill-formed plan: target %d of %d" % (op[1], len(pool)))
            target = pool[op[1]]
        aliased = target is not None and sum(1 for f in family if f == family[op[1]]) > 1
        outcome = "ok"
        new_scale = None
        readonly = kind in ("ticks", "tickformat", "call", "invert", "foreign", "bystander")
        wctx = None
        if plan.get("warnings") == "error" and kind in ("domain", "range", "range_reuse", "clamp", "nice", "interp",
                                                         "nudge", "domain_from", "range_from", "chain"):
            # environment: warnings escalated to errors (python -W error) around the setters: a
            # setter that warns is then a *rejected* call, after which every scale must still be
            # consistent (I1-I5 go on as usual)
            wctx = _warnings.catch_warnings()
            wctx.__enter__()
            _warnings.simplefilter("error")
        try:
            if kind == "new" and len(op) > 1 and op[1] == "args":
                # constructor arguments instead of setters (fresh lists, never touched again)
                rng_arg = list(op[3])
                if len(op) > 5 and op[5] is not None and pool:
                    # the range list another scale reports is handed to the constructor
                    # (harmless: nobody ever edits a range list in place)
                    src = pool[op[5] % len(pool)]
                    rng_arg = src.range()
                    passed_range[id(src)] = None
                    bump("probe:range_list_shared_through_constructor")
                part = op[6] if len(op) > 6 else "all"
                if part == "clamp_only":
                    new_scale = LinearScale(clamp=op[4])
                elif part == "domain_only":
                    new_scale = LinearScale(list(op[2]), None, None, op[4])
                elif part == "range_only":
                    new_scale = LinearScale(None, rng_arg, None, op[4])
                else:
                    new_scale = LinearScale(list(op[2]), rng_arg, None, op[4])
                pool.append(new_scale)
                family.append(next_family)
                generation.append(0)
                next_family += 1
                bump("probe:constructed_with_arguments")
            elif kind == "new":
                new_scale = LinearScale()
                pool.append(new_scale)
                family.append(next_family)
                generation.append(0)
                next_family += 1
            elif kind == "domain":
                arg = list(op[2])
                if len(op) > 3 and op[3] == "tuple":
                    arg = tuple(arg)
                elif len(op) > 3 and op[3] == "int":
                    arg = [int(v) if float(v).is_integer() else v for v in arg]
                target.domain(arg)
                if id(target) in exempt:
                    exempt[id(target)].discard("domain")
            elif kind == "range":
                arg = list(op[2])
                if len(op) > 3 and op[3] == "tuple":
                    arg = tuple(arg)
                elif len(op) > 3 and op[3] == "int":
                    arg = [int(v) if float(v).is_integer() else v for v in arg]
                passed_range[id(target)] = arg if isinstance(arg, list) else None
                target.range(arg)
                if id(target) in exempt:
                    exempt[id(target)].discard("range")
            elif kind == "range_reuse":
                # the caller edits the list it passed to range() earlier, in place,
                # and passes the same object again (one atomic step: nothing looks
                # at the scale between the edit and the call)
                lst = passed_range.get(id(target))
                if lst is None:
                    lst = list(op[2])
                else:
                    lst[:] = list(op[2])
                    bump("probe:range_list_edited_in_place_and_passed_again")
                passed_range[id(target)] = lst
                target.range(lst)
            elif kind == "clamp":
                target.clamp(op[2])
            elif kind == "nice":
                if op[2] is None:
                    target.nice()
                else:
                    target.nice(op[2])
                if aliased:
                    bump("probe:nice_on_scale_with_living_relative")
            elif kind == "bystander":
                # another scale with the SAME end points and clamp mode but a custom
                # interpolator is alive in the process (it is not itself judged); either
                # the end points the target has now, or end points a scale will be given next
                d, r, c = _reported(target)
                if len(op) > 2:
                    d, r, c = op[2], op[3], op[4]

                def _rounding(a, b):
                    return lambda t: round(a * (1 - t) + b * t)

                bystanders.append(LinearScale(list(d), list(r), _rounding, c))
                if len(bystanders) > 3:
                    del bystanders[0]
                bump("probe:custom_interpolator_bystander")
            elif kind == "deepcopy":
                # duplicated with the standard library (as copy.deepcopy of an options
                # dict holding a scale does); must be as independent as copy()
                import copy as _copy

                try:
                    new_scale = _copy.deepcopy(target)
                except Exception:
                    # copy.deepcopy() is not labella's API: a scale that refuses it
                    # loudly is duplicated with its own copy() instead
                    new_scale = target.copy()
                    bump("probe:deepcopy_refused_copy_used")
                pool.append(new_scale)
                family.append(family[op[1]])
                generation.append(generation[op[1]] + 1)
                bump("probe:deepcopy_of_scale")
            elif kind == "copy_chain":
                # many generations of copy-of-copy; only the last one is kept
                cur = target
                for _ in range(op[2]):
                    cur = cur.copy()
                pool[op[1]] = cur
                last_snap.pop(id(target), None)
                exempt.pop(id(target), None)
                held.pop(id(target), None)
                new_scale = cur
                bump("probe:long_copy_chain")
            elif kind == "nudge":
                # one end point moved by a hair: configurations that agree to many digits
                d = [float(v) for v in target.domain()]
                k = op[2] % 2
                d[k] = d[k] * (1.0 + op[3]) if d[k] else op[3]
                if d[0] != d[1]:
                    target.domain(d)
                bump("probe:end_point_nudged")
            elif kind == "copy":
                new_scale = target.copy()
                pool.append(new_scale)
                family.append(family[op[1]])
                generation.append(generation[op[1]] + 1)
                if generation[-1] >= 2:
                    bump("probe:copy_of_copy")
            elif kind == "drop":
                if aliased:
                    bump("probe:drop_then_use_relative")
                exempt.pop(id(target), None)
                last_snap.pop(id(target), None)
                touched.discard(id(target))
                held.pop(id(target), None)  # the accessors go with the scale: it must really die
                passed_range.pop(id(target), None)
                del pool[op[1]], family[op[1]], generation[op[1]]
                target = None
            elif kind in ("bad_nice", "bad_domain"):
                bump("fault:rejected_call:configured")
                try:
                    if kind == "bad_nice":
                        target.nice(0)
                    elif len(op) > 2 and op[2] == "none":
                        target.domain([None, 1])
                    else:
                        target.domain(["x", 1])
                    outcome = "accepted"
                except Exception as e:
                    outcome = "raise:" + type(e).__name__
                    bump("fault:rejected_call:fired")
                    bump("probe:rejected_call_raised")
            elif kind == "foreign":
                # unrelated use of the library in the same process: a small timeline is
                # constructed and exported; no scale of the pool is involved
                bump("probe:foreign_library_activity")
                _foreign_activity(op[2])
            elif kind in ("domain_from", "range_from"):
                # getter-to-setter transfer: one scale is given what another one reports
                src = pool[op[2] % len(pool)]
                if kind == "domain_from":
                    target.domain(src.domain())
                else:
                    target.range(src.range())
                    # the list now belongs to two scales: the caller must not edit it again
                    passed_range[id(target)] = None
                    passed_range[id(src)] = None
                bump("probe:getter_to_setter_transfer")
            elif kind == "chain":
                # the setters return the scale: one chained expression
                got = target.domain(list(op[2])).range(list(op[3])).clamp(op[4])
                if got is not target:
                    outcome = "raise:chain_does_not_return_self"
                passed_range[id(target)] = None
            elif kind == "interp":
                # the default interpolator set explicitly (semantically a no-op), and the getters
                from labella.scale import d3_interpolate

                target.interpolate()
                target.interpolate(d3_interpolate)
                target.rangeRound([0, 1])
            elif kind == "ticks":
                bump("probe:readonly_op")
                list(target.ticks(op[2]))
            elif kind == "tickformat":
                bump("probe:readonly_op")
                target.tickFormat(op[2])(1.5)
            elif kind == "call":
                bump("probe:readonly_op")
                d = target.domain()
                target(d[0] + (d[1] - d[0]) * op[2])
            elif kind == "invert":
                bump("probe:readonly_op")
                r = target.range()
                target.invert(r[0] + (r[1] - r[0]) * op[2])
            else:
                raise HarnessError("unknown op %r" % (op,))
        except HarnessError:
            raise
        except Exception as e:
            if wctx is not None and isinstance(e, Warning):
                outcome = "rejected_by_warning:" + type(e).__name__
                bump("probe:setter_rejected_by_warning")
            else:
                outcome = "raise:" + type(e).__name__
        if wctx is not None:
            wctx.__exit__(None, None, None)
        if target is not None and not readonly:
            touched.add(id(target))
        if new_scale is not None:
            touched.add(id(new_scale))
        if aliased and kind in ("domain", "range", "range_reuse", "clamp", "nice", "bad_nice", "bad_domain", "chain", "interp",
                                "domain_from", "range_from", "nudge"):
            bump("fault:alias:fired")
            bump("fault:alias:configured")
            if kind in ("domain", "range", "clamp"):
                bump("probe:%s_on_aliased" % kind)
        if len(pool) >= 5:
            bump("probe:pool_size_5")
        v = None
        if outcome.startswith("raise") and kind in ("domain", "range", "range_reuse", "clamp", "nice", "copy", "new",
                                                    "chain", "interp", "domain_from", "range_from",
                                                    "copy_chain", "nudge"):
            # a documented call on documented arguments must not raise ... unless
            # the scale is degenerate (division by zero is outside the property)
            d = list(target.domain()) if target is not None else [0, 1]
            if d[0] != d[1] and outcome != "raise:ZeroDivisionError":
                v = ("valid_call_raised", {"op": op, "outcome": outcome})
        if step in observed:
            bump("observations")
            # I4 setter echo
            if v is None and outcome == "ok":
                if kind == "domain" and list(target.domain()) != [float(x) for x in op[2]]:
                    v = ("I4_echo_domain", {"set": canon(op[2]), "reported": canon(list(target.domain()))})
                elif kind in ("range", "range_reuse") and list(target.range()) != list(op[2]):
                    v = ("I4_echo_range", {"set": canon(op[2]), "reported": canon(list(target.range()))})
                elif kind == "clamp" and bool(target.clamp()) != bool(op[2]):
                    v = ("I4_echo_clamp", {"set": op[2], "reported": bool(target.clamp())})
            snaps = {}
            # accessors obtained earlier (f = s.scale; g = s.invert) must stay live
            if v is None:
                for k, sc in enumerate(pool):
                    h = held.get(id(sc))
                    if h is None:
                        held[id(sc)] = (sc, sc.scale, sc.invert)
                        continue
                    d_, r_, _c = _reported(sc)
                    try:
                        xs_, ys_ = _probe_points(d_, r_, fr)
                        for x_ in xs_[:5]:
                            if _call(h[1], x_) != _call(sc.scale, x_):
                                v = ("stale_accessor", {"scale": k, "accessor": "scale", "x": canon(x_),
                                                        "held": _call(h[1], x_), "fresh": _call(sc.scale, x_), "op": op})
                                break
                        if v is None:
                            for y_ in ys_[:3]:
                                if _call(h[2], y_) != _call(sc.invert, y_):
                                    v = ("stale_accessor", {"scale": k, "accessor": "invert", "y": canon(y_), "op": op})
                                    break
                    except (TypeError, ValueError, IndexError):
                        pass
                    if v is not None:
                        break
            # I2 isolation: a scale that was not the target of any state-changing
            # op since the last observation is unchanged
            if v is None:
                for k, sc in enumerate(pool):
                    now = snapshot(sc, fr)
                    snaps[id(sc)] = now
                    old = last_snap.get(id(sc))
                    if old is None or id(sc) in touched:
                        continue
                    if now != old:
                        v = ("I2_isolation", {"op": op, "changed_scale": k,
                                              "ops_since_last_observation": [o for o in plan["ops"][max(0, step - 6): step + 1]],
                                              "before": old[:3], "after": now[:3]})
                        break
            # I3 copy equals original
            if v is None and kind in ("copy", "deepcopy") and outcome == "ok":
                if snaps[id(new_scale)] != snaps[id(target)]:
                    v = ("I3_copy", {"original": snaps[id(target)][:3], "copy": snaps[id(new_scale)][:3]})
            # I1 / I5 on every scale
            if v is None:
                for k, sc in enumerate(pool):
                    if exempt.get(id(sc)):
                        continue
                    try:
                        bad = check_scale(sc, fr, stats)
                    except ZeroDivisionError:
                        bad = ("division_by_zero_on_nondegenerate", {"scale": k})
                    except (TypeError, ValueError, IndexError) as e:
                        bad = ("reported_state_not_mapped", {"scale": k, "exception": type(e).__name__,
                                                             "reported": repr(_reported(sc))[:200]})
                    checked += 1
                    if bad is not None:
                        bad[1]["scale"] = k
                        bad[1]["op"] = op
                        v = bad
                        break
            last_snap = snaps if v is None else last_snap
            touched = set()
            mags = [abs(x) for sc in pool for x in list(sc.domain()) + list(sc.range())
                    if x and isinstance(x, (int, float))]
            if mags and min(mags) < 1e-4:
                stats["probe:magnitude_tiny"] = 1
            if mags and max(mags) > 1e7:
                stats["probe:magnitude_huge"] = 1
            log.append([step, op, outcome, [canon(_num(_reported(sc))) for sc in pool]])
        else:
            bump("probe:unobserved_step")
            log.append([step, op, outcome])
        if v is not None:
            violations.append({"property": "C12", "class": v[0], "step": step, "detail": v[1]})
            break
    stats["checked_steps"] = checked
    stats["ops"] = len(log)
    return {"violations": violations, "stats": stats, "log_digest": digest(log),
            "aliased_ops": stats.get("fault:alias:fired", 0)}


def execute(plan):
    if plan.get("cold"):
        from ..driver import cold_run

        res = cold_run(NAME, plan)
    else:
        res = run_isolated(_run, plan)
    st = res["stats"]
    counters = dict(st)
    counters["runs_fault_injecting" if (st.get("fault:alias:fired") or st.get("fault:rejected_call:fired"))
             else "runs_fault_free"] = 1
    sets = {
        "interleavings(op-kind/target sequences)": [h64([(o[0], o[1] if len(o) > 1 else None) for o in plan["ops"]])],
        "aliasing_shapes": [h64([o[0] + str(o[1]) for o in plan["ops"] if o[0] in ("copy", "drop", "nice")])],
    }
    return {
        "violations": res["violations"],
        "counters": counters,
        "sets": sets,
        "digest": res["log_digest"],
        "nontrivial": res["aliased_ops"] > 0 and st.get("checked_steps", 0) > 0,
    }


def simulated_time(counters):
    return {"note": "the SCALE simulation has no clock; progress is counted in operations",
            "operations": counters.get("ops", 0)}


# ------------------------------------------------------------------ shrinking

def simplifiers(plan, prop):
    for i, op in enumerate(plan["ops"]):
        if op[0] in ("domain", "range", "range_reuse"):
            for simple in ([0.0, 1.0], [1.0, 0.0], [0.0, 10.0], [0.13, 0.97]):
                if op[2] != simple:
                    p = copy.deepcopy(plan)
                    p["ops"][i][2] = simple
                    yield p
            for j in (0, 1):
                v = op[2][j]
                for c in (float(round(v)), float("%.1g" % v) if v else 0.0):
                    if c != v and c != op[2][1 - j]:
                        p = copy.deepcopy(plan)
                        p["ops"][i][2][j] = c
                        yield p
        elif op[0] == "nice" and op[2] is not None:
            p = copy.deepcopy(plan)
            p["ops"][i][2] = None
            yield p
        elif op[0] in ("bad_nice", "bad_domain"):
            p = copy.deepcopy(plan)
            del p["ops"][i]
            if p["ops"]:
                q = well_formed(p)
                if q:
                    yield q
    if plan.get("observe", "all") != "all":
        p = copy.deepcopy(plan)
        p["observe"] = "all"
        yield p
    if plan["fractions"] != [0.0, 1.0, 0.5, -0.5, 2.0, 0.25]:
        p = copy.deepcopy(plan)
        p["fractions"] = [0.0, 1.0, 0.5, -0.5, 2.0, 0.25]
        yield p


def finding_signature(plan, violation):
    return {"class": violation["class"], "op_kinds": [o[0] for o in plan["ops"]]}
