# -*- coding: utf-8 -*-
"""TIMELINE simulation - decides C10 (a timeline's export depends only on its
own data and options).  DESIGN.md section 4.2.

System under simulation: 2-4 timeline slots in one process.  Every CONSTRUCT
materialises its spec from JSON, so slots never receive the same objects and
must therefore share nothing.  The seeded scheduler interleaves the slots'
construct / export / export-to-file / replace operations; the simulator owns
the wall clock (date.today()), the disk (open/write) and the peer process
(latexmk) and injects clock jumps, disk errors, torn writes and peer failures.
Every export is compared with the export of the same spec constructed and
exported alone in a pristine forked child.
"""

import copy
import sys
import datetime
import errno

from .. import seams
from ..iso import run_isolated
from ..util import HarnessError, digest, h64, sha
from .zone import decode_time

NAME = "timeline"
PROPERTIES = ["C10"]

BUDGET = {
    "quick": {"runs": 30000, "wall": 55, "chunk": 20, "shrink_evals": 300},
    "thorough": {"runs": 1000000, "wall": 840, "chunk": 50, "shrink_evals": 600},
}

FAULT_KINDS = ["interleave", "clock_jump", "disk_error", "peer_fail", "abort"]

PROBES = [
    "default_scale_shared_by_ge_3", "export_after_later_construction", "reexport",
    "reexport_after_foreign_export", "export_after_failed_export", "replace_then_export",
    "reconstruct_same_spec", "own_time_scale", "own_linear_scale", "tex_backend",
    "svg_backend", "time_of_day_items", "midnight_crossed_inside_construct",
    "clock_crossed_midnight_between_ops", "peer_measured_text", "pdf_built",
    "torn_write_left_partial_file", "four_slots", "construct_raised_both",
    "export_raised_both", "mixed_directions", "labella_options_differ",
    "export_multilayer", "export_ge_3_layers", "export_with_lineSpacing",
    "abort_inside_export", "abort_inside_construct", "peer_failed_inside_construct",
    "export_to_path_written_before", "poked_between_exports", "option_changed_on_live_timeline",
    "options_dict_shared_by_caller",
]

RULE = (
    "Each run draws (one PRNG seeded by sha256(VERIF_SEED:timeline:i)) 2-4 slot specs (SVG/TikZ; 1-12 "
    "items of datetime/date/time-of-day/number data; default, own TimeScale or own LinearScale; "
    "directions, sizes, engine options, colours, latex options) and a seeded interleaving of 6-14 "
    "CONSTRUCT/EXPORT/EXPORT_FILE/REPLACE/CLOCK_ADVANCE operations with injected disk errors (ENOSPC/"
    "EIO at open, as a torn write, or at copy2), latexmk failures (non-zero exit, missing), clock jumps and "
    "aborts (SimAbort/KeyboardInterrupt/MemoryError raised at a seeded fraction of the line events of an "
    "export or a construction). Oracle: every export outcome "
    "(returned document, file bytes, pdf bytes, or exception type) equals that of the same spec "
    "constructed and exported alone in a pristine forked child replaying the same clock readings; "
    "operations hit by an injected fault are exempt, the next clean export is checked in full. "
    "Non-trivial run: some judged export had a foreign construct/export between its construction and "
    "the export, or was a re-export, or followed a fired fault; distinct = distinct (op-kind, slot) "
    "sequences with backend/scale kinds."
)

ASSUMPTIONS = [
    "interleaving is at operation granularity (the property's own quantifier); no line-level pre-emption",
    "specs are materialised from JSON at every CONSTRUCT, so two slots never receive the same objects",
    "disk (open/write/copy2/TemporaryDirectory) and latexmk are in-memory stubs; nothing is claimed about real LaTeX runs",
    "the reference replays the clock readings its slot saw, so the clock is a controlled input",
    "an export hit by an injected fault is not judged; histories and specs are sampled",
    "options written into a live timeline's options dict (only keys that are read at export time) belong to that timeline's options; the reference constructs, applies the same writes, then exports",
]

COMPONENTS = {
    "real": ["labella.timeline.Timeline/TimelineSVG/TimelineTex", "labella.scale.TimeScale/LinearScale",
             "labella.d3_time", "labella.force/distributor/removeOverlap/vpsc/node/renderer",
             "labella.tex (get_latex_fontdoc, get_latex_dims, build_latex_doc, compile_latex, uni2tex)",
             "xml.etree.ElementTree"],
    "simulated": ["operation interleaving over 2-4 slots (seeded scheduler)"],
    "stub": ["datetime.date.today() (simulated clock)", "open/write (in-memory file system with fault points)",
             "tempfile.TemporaryDirectory, shutil.copy2 (in-memory)", "subprocess.check_output -> scripted latexmk"],
}

# options a user may change on a live timeline (they are read at export time)
TWEAKS = [("layerGap", [30, 100]), ("dotRadius", [2, 6]), ("showTicks", [True, False]), ("showBorder", [True, False]),
          ("dotColor", ["#0f0", "#123456"]), ("linkColor", ["#00f"]), ("labelBgColor", ["#654321"]),
          ("labelTextColor", ["#eee"]), ("textXOffset", ["0.5em"]), ("textYOffset", ["1.2em"])]

PALETTE = ["#1f77b4", "#ff7f0e", "#2ca02c", "#d62728", "#9467bd", "#8c564b", "#e377c2", "#7f7f7f", "#bcbd22", "#17becf"]

FN_REGISTRY = {
    "by_width": lambda d: "#d62728" if d.get("width", 0) and d.get("width", 0) > 40 else "#1f77b4",
    "by_text": lambda d: "#2ca02c" if d.get("text") else "#444",
    "upper": lambda d: (d["text"].upper() if d.get("text") else None),
    "plain": lambda d: d["text"] if "text" in d else None,
}


# ------------------------------------------------------------------ generation

def gen_spec(rng, slot_index, swarm):
    backend = rng.choice(["svg", "svg", "tex"])
    kind = rng.choices(["dt", "d", "t", "n"], weights=[50, 20, 10, 20])[0]
    # a single item (or items on one day: datetimes lose their time of day in
    # parse_items) gives a degenerate domain, which raises alone and in any
    # history alike; kept, but rare, so that most exports produce documents
    n = rng.choice([1, 2, 2, 3, 3, 4, 4, 6, 6, 9, 12, 12])
    if swarm["ranges"] == "far":
        base_year = [[1985, 1984], [2003, 2004], [2031, 2032], [1962, 1964]][slot_index % 4][rng.randrange(2)]
    else:
        base_year = 2010
    base = datetime.datetime(base_year, rng.randrange(1, 13), rng.randrange(1, 28))
    span_days = rng.choice([0.5, 3, 3, 40, 40, 40, 400, 400, 400, 4000, 4000, 12, 20])
    if rng.random() < 0.15:
        # around the end of February (leap and common years differ there)
        base = datetime.datetime(base_year, 2, rng.randrange(14, 27))
        span_days = rng.choice([8, 12, 20])
    clustered = rng.random() < 0.4
    centres = [rng.random() for _ in range(rng.choice([1, 2, 3]))]
    nmag = rng.choice([1, 1, 1, 0.001, 0.01, 100])  # numeric data of different magnitudes (tick labels need other decimals)
    pool = swarm.get("pool")
    use_pool = pool is not None and kind in ("dt", "d", "n") and rng.random() < 0.7
    both_ends = use_pool and rng.random() < (0.8 if kind == "n" else 0.5)
    if use_pool:
        # slots of this run draw their instants from one shared pool: equal time
        # values (and often equal data extents) across different timelines
        base = datetime.datetime(2010, 3, 1)
        span_days = pool["span_days"]
    items = []
    for i in range(n):
        it = {}
        u = rng.random()
        if use_pool:
            if both_ends and i < 2:
                u = pool["u"][0] if i == 0 else pool["u"][-1]
            elif rng.random() < 0.8:
                u = rng.choice(pool["u"])
            if kind == "n":
                it["time"] = ["n", int(u * 1000) * nmag]
            else:
                t = base + datetime.timedelta(seconds=int(u * span_days * 86400))
                it["time"] = ["dt", t.isoformat()] if kind == "dt" else ["d", t.date().isoformat()]
        if clustered and i > 0:
            # few distinct neighbourhoods (plus one far item to keep the domain wide):
            # such layouts need several layers and put stubs next to each other
            u = min(1.0, max(0.0, rng.choice(centres) + rng.choice([0, 0, 0.002, -0.004, 0.01])))
        elif clustered:
            u = rng.choice([0.0, 1.0])
        if use_pool:
            pass
        elif kind == "n":
            it["time"] = ["n", ((int(u * 1000) if rng.random() < 0.7 else int(u * 4000) / 4.0) + 100 * slot_index) * nmag]
        else:
            t = base + datetime.timedelta(seconds=int(u * span_days * 86400))
            if kind == "dt":
                it["time"] = ["dt", t.isoformat()]
            elif kind == "d":
                it["time"] = ["d", t.date().isoformat()]
            else:
                it["time"] = ["t", t.time().replace(microsecond=0).isoformat()]
        r = rng.random()
        if r < 0.45:
            it["text"] = rng.choice(["a", "Label %d" % i, "Ünïcode", "x y z", "The Phantom Menace",
                                     "Rene\u0301e", "Rene\u0301l", "Zoe\u0308", "na\u0308ive", "a\u0301b"])
            if rng.random() < swarm["peer_p"]:
                pass  # no width: measured by the (scripted) latexmk at construction
            else:
                it["width"] = rng.choice([20, 35, 50, 80, 120])
        elif r < 0.8:
            it["width"] = rng.choice([10, 30, 50, 75.5])
        items.append(it)
    opts = {}
    if rng.random() < 0.7:
        opts["direction"] = rng.choice(["up", "down", "left", "right"])
    if rng.random() < 0.4:
        opts["initialWidth"] = rng.choice([250, 600, 804, 1000])
    if rng.random() < 0.4:
        opts["initialHeight"] = rng.choice([112, 250, 400, 700])
    if rng.random() < 0.25:
        opts["margin"] = {"left": rng.choice([0, 20, 40]), "right": 20, "top": rng.choice([5, 20]), "bottom": 30}
    if rng.random() < 0.25:
        opts["layerGap"] = rng.choice([30, 40, 50, 55, 70, 100])
    if rng.random() < 0.15:
        opts["dotRadius"] = rng.choice([2, 5])
    if rng.random() < 0.1:
        opts["textXOffset"] = rng.choice(["0.3em", "1px"])
    if rng.random() < 0.1:
        opts["textYOffset"] = rng.choice(["1em", "0.7em"])
    if rng.random() < 0.25:
        opts["showTicks"] = rng.random() < 0.3
    if rng.random() < 0.2:
        opts["showBorder"] = True
        if rng.random() < 0.5:
            opts["borderColor"] = rng.choice(["#f00", {"$palette": 1}])
    if rng.random() < 0.45:
        lab = {}
        if rng.random() < 0.7:
            lab["maxPos"] = rng.choice([200, 360, 764, 960])
        if rng.random() < 0.3:
            lab["minPos"] = rng.choice([0, 10, None])
        if rng.random() < 0.3:
            lab["algorithm"] = rng.choice(["overlap", "simple", "none"])
        if rng.random() < 0.3:
            lab["density"] = rng.choice([0.5, 0.75, 1])
        if rng.random() < 0.2:
            lab["nodeSpacing"] = rng.choice([0, 3, 8])
        if rng.random() < 0.15:
            lab["stubWidth"] = rng.choice([1, 4])
        if rng.random() < 0.25:
            lab["lineSpacing"] = rng.choice([0, 2, 6, 12])
        opts["labella"] = lab
    if rng.random() < 0.2 and kind in ("dt", "d"):
        a = base - datetime.timedelta(days=rng.randrange(0, 30))
        b = base + datetime.timedelta(days=span_days + rng.randrange(1, 60))
        opts["domain"] = [["dt", a.isoformat()], ["dt", b.isoformat()]]
    elif rng.random() < 0.2 and kind == "n":
        opts["domain"] = [["n", 0], ["n", 1500 * nmag]]
    for ck in ("dotColor", "labelBgColor", "linkColor", "labelTextColor"):
        if rng.random() < 0.2:
            opts[ck] = rng.choice(["#000000", "#abc", {"$palette": 0}, {"$fn": "by_width"}, {"$fn": "by_text"}])
    if rng.random() < 0.15:
        opts["textFn"] = rng.choice([{"$fn": "upper"}, {"$fn": "plain"}, None])
    if rng.random() < 0.2:
        opts["labelPadding"] = {"left": rng.choice([0, 2, 5]), "right": rng.choice([0, 2, 4, 5]),
                                "top": rng.choice([0, 3, 5, 8, 10]), "bottom": rng.choice([0, 2, 3, 5, 7])}
    if rng.random() < 0.3:
        lat = {}
        if rng.random() < 0.5:
            lat["reproducible"] = True
        if rng.random() < 0.3:
            lat["fontsize"] = rng.choice(["10pt", "12pt"])
        if rng.random() < 0.3:
            lat["tickCross"] = True
        for tk in ("borderThickness", "axisThickness", "tickThickness", "linkThickness"):
            if rng.random() < 0.12:
                lat[tk] = rng.choice(["thin", "thick", "ultra thick"])
        if rng.random() < 0.2:
            lat["preamble"] = "\\usepackage{lmodern}"
        opts["latex"] = lat
    if swarm["peer_p"] > 0 and rng.random() < 0.7:
        # text measuring is in play: vary what the measured size depends on
        lat = opts.setdefault("latex", {})
        if rng.random() < 0.6:
            lat["preamble"] = rng.choice(["\\usepackage{lmodern}", "\\renewcommand{\\familydefault}{\\sfdefault}",
                                          "\\usepackage{times}"])
        if rng.random() < 0.3:
            lat["latexmkOptions"] = rng.choice([["-pdf"], ["-xelatex"], ["-lualatex"]])
        if rng.random() < 0.3:
            lat["fontsize"] = rng.choice(["10pt", "12pt"])
    if kind == "n":
        scale = "own_linear" if rng.random() < 0.7 else "own_linear_round"
    else:
        scale = rng.choices(["default", "own_time"], weights=[swarm["default_p"], 1 - swarm["default_p"]])[0]
    return {"backend": backend, "items": items, "options": opts, "scale": scale}


def gen_plan(rng, tier):
    nslots = rng.choice([2, 2, 3, 4])
    swarm = {
        "ranges": rng.choice(["far", "far", "overlap"]),
        "default_p": rng.choice([0.5, 0.8, 1.0]),
        "peer_p": rng.choice([0.0, 0.0, 0.3]),
        "faults": {k: rng.random() < 0.5 for k in ("disk", "peer", "clock", "abort")},
    }
    if rng.random() < 0.3:
        swarm["faults"] = {k: False for k in swarm["faults"]}
    if swarm["ranges"] == "overlap":
        swarm["pool"] = {"u": sorted(rng.random() for _ in range(rng.choice([4, 6, 8]))),
                         "span_days": rng.choice([40, 400, 4000])}
    slots = [gen_spec(rng, i, swarm) for i in range(nslots)]
    if rng.random() < 0.12:
        # one options dict object re-used by the caller for all (time-scale) slots
        base = None
        for sp in slots:
            if not sp["scale"].startswith("own_linear"):
                if base is None:
                    base = copy.deepcopy(sp["options"])
                    base.pop("domain", None)
                sp["options"] = copy.deepcopy(base)
                sp["scale"] = "default"
                sp["share_key"] = "A"
    if nslots >= 2 and rng.random() < 0.12:
        # twin timelines: the same data and options except for ONE engine option
        twin = copy.deepcopy(slots[0])
        lab = dict(twin["options"].get("labella") or {})
        lab.setdefault("maxPos", rng.choice([200, 360]))
        slots[0]["options"]["labella"] = dict(lab)
        k = rng.choice(["density", "stubWidth", "nodeSpacing", "maxPos", "algorithm"])
        lab[k] = {"density": rng.choice([0.4, 0.6, 1]), "stubWidth": rng.choice([3, 8]), "nodeSpacing": rng.choice([0, 9]),
                  "maxPos": lab["maxPos"] + rng.choice([60, 150]), "algorithm": rng.choice(["simple", "overlap"])}[k]
        twin["options"]["labella"] = lab
        twin.pop("share_key", None)
        slots[0].pop("share_key", None)
        slots[1] = twin
    if nslots >= 2 and rng.random() < 0.05:
        # wall mirror: slot 0 keeps its one label right of a lower bound, slot 1 keeps its
        # one label left of an upper bound, and the numbers coincide (bound of the one =
        # wanted position of the other, same width; identity scale): two layout problems
        # with equal positions and gaps in which only the ROLE of each value differs
        W = rng.choice([460, 760])
        w = rng.choice([30, 50, 96])
        m = rng.choice([60, 100, 250])
        p = m + rng.choice([5, 20, 40, 120])
        common = {"direction": rng.choice(["up", "down"]), "initialWidth": W + 40,
                  "domain": [["n", 0], ["n", W]]}
        for k, (t, lab) in enumerate([(p, {"minPos": m}), (m, {"minPos": None, "maxPos": p})]):
            slots[k] = {"backend": rng.choice(["svg", "tex"]), "items": [{"time": ["n", t], "width": w}],
                        "options": dict(copy.deepcopy(common), labella=lab), "scale": "own_linear"}
    initial = copy.deepcopy(slots)
    constructed = [False] * nslots
    nfile = 0
    ops = []
    nops = rng.randrange(6, 17) if tier == "quick" else rng.randrange(6, 25)
    while len(ops) < nops:
        i = rng.randrange(nslots)
        r = rng.random()
        def abort_fault(p):
            if swarm["faults"]["abort"] and rng.random() < p:
                return {"kind": "abort", "frac": rng.randrange(0, 1000000),
                        **({"strat": rng.randrange(0, 1000000)} if rng.random() < 0.5 else {}),
                        "scope": rng.choice(["any", "any", "timeline.py", "vpsc.py", "scale.py", "d3_time.py",
                                             "renderer.py", "force.py", "distributor.py", "distributor.py",
                                             "removeOverlap.py", "node.py", "tex.py"]),
                        "exc": rng.choice(["SimAbort", "MemoryError", "KeyboardInterrupt"])}
            return None

        def peer_construct_fault(spec):
            measured = any(("text" in it and "width" not in it) for it in spec["items"])
            if swarm["faults"]["peer"] and measured and rng.random() < 0.3:
                return {"kind": rng.choice(["peer_exit", "peer_missing"])}
            return None

        if not constructed[i]:
            if r < 0.8:
                f = abort_fault(0.08) or peer_construct_fault(slots[i])
                ops.append(["construct", i] + ([f] if f else []))
                constructed[i] = f is None
            continue
        if r < 0.45:
            f = abort_fault(0.2)
            ops.append(["export", i] + ([f] if f else []))
        elif r < 0.65:
            nfile += 1
            ext = ".svg" if slots[i]["backend"] == "svg" else ".tex"
            # few distinct paths per slot, so that retries and re-exports hit a
            # path that was written (or half written) before
            fileno = rng.choice([1, 1, 2])
            fault = None
            is_tex = slots[i]["backend"] == "tex"
            build_pdf = rng.random() < 0.6
            if swarm["faults"]["disk"] and rng.random() < 0.35:
                fault = {"kind": rng.choice(["disk_open", "disk_write"] + (["disk_copy"] if is_tex else [])),
                         "errno": rng.choice([errno.ENOSPC, errno.EIO])}
            elif swarm["faults"]["peer"] and is_tex and rng.random() < 0.6:
                fault = {"kind": rng.choice(["peer_exit", "peer_missing"])}
            elif swarm["faults"]["abort"] and rng.random() < 0.2:
                fault = abort_fault(1.0)
            if fault and fault["kind"] in ("disk_copy", "peer_exit", "peer_missing"):
                build_pdf = True  # place the fault inside an operation that reaches the peer
            fpath = "/simfs/out%d_%d%s" % (i, fileno, ext)
            if rng.random() < 0.25:
                fpath = "/simfs/shared_%d%s" % (fileno, ext)  # a file name other timelines write to as well
            ops.append(["export_file", i, fpath, build_pdf, fault])
        elif r < 0.67:
            ops.append(["poke", i])
        elif r < 0.69:
            key, vals = rng.choice(TWEAKS)
            ops.append(["tweak", i, key, rng.choice(vals)])
        elif r < 0.75:
            ops.append(["construct", i])  # a new object from the same spec
        elif r < 0.85:
            spec = gen_spec(rng, i, swarm)
            ops.append(["replace", i, spec])
            slots[i] = spec
            constructed[i] = False
        elif swarm["faults"]["clock"]:
            ops.append(["clock_advance", rng.choice([60, 3600, 86400, 86400 * 3, 40000])])
        else:
            ops.append(["export", i])
    clock = datetime.datetime(rng.randrange(1995, 2040), rng.randrange(1, 13), rng.randrange(1, 28),
                              rng.choice([0, 9, 23]), rng.choice([0, 30, 59]), rng.choice([0, 58]))
    plan = {"sim": NAME, "slots": initial, "ops": ops,
            "clock": {"start": clock.isoformat(), "tick_s": rng.choice([0, 0, 1, 30])},
            "swarm": swarm}
    if tier == "thorough" and rng.random() < 0.004:
        plan["cold_crosscheck"] = True
    if rng.random() < 0.1:
        plan["pyopt"] = 1  # environment: the library compiled as under `python -O`
    g = rng.random()
    if g < 0.1:
        plan["gc"] = "disabled"      # environment: no cyclic garbage collection during the run
    elif g < 0.2:
        plan["gc"] = "every_op"      # ... or a full collection after every operation
    if rng.random() < 0.04:
        plan["warnings"] = "error"   # environment: warnings escalated to errors (python -W error)
    if rng.random() < 0.03:
        # "a fresh process" also means another string-hash seed: one reference of this run
        # is computed in a cold interpreter started with this PYTHONHASHSEED
        plan["hashseed_ref"] = rng.randrange(1, 9)
    return plan


def plan_signature(plan):
    return [[(s["backend"], s["scale"]) for s in plan["slots"]],
            [(o[0], o[1] if o[0] != "clock_advance" else None) for o in plan["ops"]]]


def well_formed(plan):
    n = len(plan["slots"])
    ops = [op for op in plan["ops"] if op[0] == "clock_advance" or op[1] < n]
    if not ops:
        return None
    plan["ops"] = ops
    return plan


# ------------------------------------------------------------------ materialise a spec

def _mat(v):
    if isinstance(v, dict):
        if "$fn" in v:
            return FN_REGISTRY[v["$fn"]]
        if "$palette" in v:
            k = v["$palette"]
            return list(PALETTE[k:] + PALETTE[:k])
        return {kk: _mat(vv) for kk, vv in v.items()}
    if isinstance(v, list):
        if len(v) == 2 and v[0] in ("dt", "d", "t", "n") and not isinstance(v[1], list):
            return decode_time(v)
        return [_mat(x) for x in v]
    return v


def materialise(spec):
    from labella.scale import LinearScale, TimeScale

    data = []
    for it in spec["items"]:
        d = {"time": decode_time(it["time"])}
        for k in ("text", "width"):
            if k in it:
                d[k] = it[k]
        data.append(d)
    options = {k: _mat(copy.deepcopy(v)) for k, v in spec["options"].items()}
    if spec["scale"] == "own_time":
        options["scale"] = TimeScale()
    elif spec["scale"] == "own_linear":
        options["scale"] = LinearScale()
    elif spec["scale"] == "own_linear_round":
        # a caller-supplied linear scale with a custom (rounding) interpolator
        options["scale"] = LinearScale(interpolate=lambda a, b: (lambda t: round(a * (1 - t) + b * t)))
    return data, options


_SHARED_OPTIONS = {}  # per run child: option dicts the caller re-uses for several timelines


def _construct(spec, share=False):
    from labella.timeline import TimelineSVG, TimelineTex

    data, options = materialise(spec)
    if share and spec.get("share_key"):
        # the caller passes ONE options dict object to several timelines (as every
        # script under examples/ does); it holds no scale, so nothing but the dict
        # itself is shared
        options = _SHARED_OPTIONS.setdefault(spec["share_key"], options)
    cls = TimelineSVG if spec["backend"] == "svg" else TimelineTex
    return cls(data, options=options)


def _text(doc):
    if isinstance(doc, bytes):
        return doc.decode("utf-8", "replace")
    return doc


def _do_export(tl, spec, fs, op):
    """Returns the outcome of one export op on object tl."""
    out = {}
    try:
        if op[0] == "export":
            doc = tl.export()
        else:
            path, build_pdf = op[2], op[3]
            if spec["backend"] == "svg":
                doc = tl.export(path)
            else:
                doc = tl.export(path, build_pdf=build_pdf)
        out["ret"] = ["ok", _text(doc)]
    except Exception as e:
        out["ret"] = ["raise", type(e).__name__]
    try:
        out["layers"] = 1 + max(n.layerIndex for n in tl.nodes) if tl.nodes else 0
    except Exception:
        out["layers"] = 0
    if op[0] == "export_file":
        path = op[2]
        out["file"] = _text(fs.files[path]) if path in fs.files else None
        pdf = path[: path.rfind(".")] + ".pdf"
        # a pdf is an outcome of this op only if this op builds one (an older
        # pdf next to a re-used path is residue of an earlier op, not of this one)
        out["pdf"] = fs.files.get(pdf) if (spec["backend"] == "tex" and op[3]) else None
    return out


# ------------------------------------------------------------------ execution (child)

def _run(plan):
    import gc as _gc

    if plan.get("gc") == "disabled":
        _gc.disable()
    if plan.get("warnings") == "error":
        import warnings

        warnings.simplefilter("error")  # environment: python -W error (run and references alike)
    if plan.get("pyopt"):
        # the library as `python -O` compiles it (assert statements stripped)
        from ..util import reimport_labella

        reimport_labella(optimize=1)
    seams.silence_stdio()
    sys.setrecursionlimit(3000)  # the harness's own frames must never decide whether the solver's recursion fits
    clock = seams.SimClock(plan["clock"]["start"], plan["clock"]["tick_s"])
    seams.install_clock(clock)
    fs = seams.MemFS()
    peer = seams.LatexmkStub(fs)
    seams.install_fs_and_peer(fs, peer)
    stats = {}

    def bump(k, n=1):
        stats[k] = stats.get(k, 0) + n

    specs = [copy.deepcopy(s) for s in plan["slots"]]
    n = len(specs)
    objs = [None] * n
    readings = [None] * n
    constructed_step = [None] * n
    foreign = [0] * n           # foreign construct/export ops since this slot's construction
    foreign_exports = [0] * n
    exports_done = [0] * n
    failed_export = [False] * n
    replaced = [False] * n
    ever_constructed = [False] * n
    tweaks = [[] for _ in range(n)]
    events = []
    log = []
    for step, op in enumerate(plan["ops"]):
        if plan.get("gc") == "every_op":
            _gc.collect()
        kind = op[0]
        outcome = "ok"
        if kind == "clock_advance":
            d0 = clock.now.date()
            clock.advance(op[1])
            bump("fault:clock_jump:configured")
            if clock.now.date() != d0:
                bump("fault:clock_jump:fired")
                bump("probe:clock_crossed_midnight_between_ops")
            bump("simulated_seconds", op[1])
        elif kind == "tweak":
            # the user changes an option of a live timeline (there is no setter: the
            # options dict is the interface); it belongs to that timeline's options from now on
            i = op[1]
            if objs[i] is None:
                outcome = "skipped"
            else:
                try:
                    objs[i].options[op[2]] = op[3]
                except TypeError:
                    # a timeline whose options mapping is read-only refuses the write
                    # loudly: its options are what they were
                    outcome = "refused"
                    bump("probe:option_write_refused")
                else:
                    tweaks[i].append([op[2], op[3]])
                    bump("probe:option_changed_on_live_timeline")
        elif kind == "poke":
            # the user calls helpers and reads attributes between exports; nothing
            # here may change what any timeline exports later
            i = op[1]
            if objs[i] is None:
                outcome = "skipped"
            else:
                tl = objs[i]
                bump("probe:poked_between_exports")
                try:
                    tl.get_nodes()
                    tl.compute()
                    tl.getInnerDims()
                    for it in tl.items[:3]:
                        tl.timePos(it.data)
                        repr(it)
                    tl.nodes, tl.renderer, tl.items, dict(tl.options)
                    sc = tl.options["scale"]
                    sc.domain(), sc.range()
                    list(sc.ticks())
                    k = 2 + (step % 4)
                    list(sc.ticks(k))
                    try:
                        sc.tickFormat(k)
                    except TypeError:
                        sc.tickFormat()
                except Exception as e:
                    outcome = "raise:" + type(e).__name__
                for j in range(n):
                    if j != i and objs[j] is not None:
                        foreign[j] += 1
        elif kind == "replace":
            i = op[1]
            specs[i] = copy.deepcopy(op[2])
            objs[i] = None
            replaced[i] = True
        elif kind == "construct":
            i = op[1]
            spec = specs[i]
            if ever_constructed[i] and not replaced[i]:
                bump("probe:reconstruct_same_spec")
            cfault = op[2] if len(op) > 2 and op[2] else None
            c_faulted = False
            if cfault and cfault["kind"].startswith("peer"):
                bump("fault:peer_fail:configured")
                peer.arm("exit" if cfault["kind"] == "peer_exit" else "missing")
                nfp = len(peer.fired)
                r0 = len(clock.readings)
                try:
                    obj = _construct(spec)
                    c_out = "ok"
                except Exception as e:
                    obj = None
                    c_out = "raise:" + type(e).__name__
                peer.disarm()
                if len(peer.fired) > nfp:
                    bump("fault:peer_fail:fired")
                    bump("probe:peer_failed_inside_construct")
                    objs[i] = None
                    for j in range(n):
                        if j != i and objs[j] is not None:
                            foreign[j] += 1
                    log.append([step, kind, i, "peer_failed:" + c_out])
                    continue
                cfault = None  # the peer was never reached: an ordinary construction (done again below)
            if cfault:
                bump("fault:abort:configured")
                obj, tr = _traced(cfault, lambda: _construct(spec), lambda: _construct(spec))
                r0 = len(clock.readings)  # readings of the real attempt only matter if it completed
                if tr.fired:
                    bump("fault:abort:fired")
                    bump("probe:abort_inside_construct")
                    c_faulted = True
                    objs[i] = None
                    outcome = "aborted"
                    # a construction that did not complete leaves no object; whatever
                    # it left behind in the process is what the next operations meet
                    for j in range(n):
                        if j != i and objs[j] is not None:
                            foreign[j] += 1
                    log.append([step, kind, i, outcome])
                    continue
            r0 = len(clock.readings)
            calls0 = peer.calls
            try:
                objs[i] = _construct(spec, share=True)
                outcome = "ok"
                if spec.get("share_key"):
                    bump("probe:options_dict_shared_by_caller")
            except Exception as e:
                objs[i] = None
                outcome = "raise:" + type(e).__name__
            readings[i] = clock.readings[r0:]
            if len(set(readings[i])) > 1:
                bump("probe:midnight_crossed_inside_construct")
            if readings[i]:
                bump("probe:time_of_day_items")
            if peer.calls > calls0:
                bump("probe:peer_measured_text", peer.calls - calls0)
            constructed_step[i] = step
            tweaks[i] = []
            ever_constructed[i] = True
            replaced[i] = False
            exports_done[i] = 0
            failed_export[i] = False
            for j in range(n):
                if j != i and objs[j] is not None:
                    foreign[j] += 1
            foreign[i] = 0
            foreign_exports[i] = 0
            events.append({"step": step, "slot": i, "kind": "construct", "spec": spec,
                           "readings": readings[i], "outcome": outcome, "faulted": False,
                           "window_foreign": 0, "reexport": 0})
            bump("probe:%s_backend" % spec["backend"])
            if spec["scale"] == "own_time":
                bump("probe:own_time_scale")
            elif spec["scale"].startswith("own_linear"):
                bump("probe:own_linear_scale")
            live_default = sum(1 for j in range(n) if objs[j] is not None and specs[j]["scale"] == "default")
            if live_default >= 3:
                bump("probe:default_scale_shared_by_ge_3")
            if sum(1 for j in range(n) if objs[j] is not None) == 4:
                bump("probe:four_slots")
            dirs = {specs[j]["options"].get("direction", "right") for j in range(n) if objs[j] is not None}
            if len(dirs) > 1:
                bump("probe:mixed_directions")
            labs = {h64(specs[j]["options"].get("labella", {})) for j in range(n) if objs[j] is not None}
            if len(labs) > 1:
                bump("probe:labella_options_differ")
        elif kind in ("export", "export_file"):
            i = op[1]
            if objs[i] is None:
                outcome = "skipped"
            else:
                spec = specs[i]
                faulted = False
                fault = op[4] if kind == "export_file" else (op[2] if len(op) > 2 else None)
                afault = fault if fault and fault["kind"] == "abort" else None
                if afault:
                    fault = None
                if fault:
                    fk = fault["kind"]
                    if fk == "disk_open":
                        fs.arm("open", fault["errno"])
                    elif fk == "disk_write":
                        fs.arm("write", fault["errno"])
                    elif fk == "disk_copy":
                        fs.arm("copy", fault["errno"])
                    elif fk == "peer_exit":
                        peer.arm("exit")
                    elif fk == "peer_missing":
                        peer.arm("missing")
                    bump("fault:%s:configured" % ("peer_fail" if fk.startswith("peer") else "disk_error"))
                if kind == "export_file" and op[2] in fs.files:
                    bump("probe:export_to_path_written_before")
                nf_fs, nf_peer = len(fs.fired), len(peer.fired)
                if afault:
                    bump("fault:abort:configured")
                    res, tr = _traced(afault, lambda: objs[i].export(),
                                      lambda: _do_export(objs[i], spec, fs, op))
                    if tr.fired:
                        faulted = True
                        bump("fault:abort:fired")
                        bump("probe:abort_inside_export")
                    if res is None:
                        res = {"ret": ["raise", "aborted"]}
                        if kind == "export_file":
                            res["file"] = None
                            res["pdf"] = None
                else:
                    res = _do_export(objs[i], spec, fs, op)
                if fault:
                    fs.disarm()
                    peer.disarm()
                    if len(fs.fired) > nf_fs:
                        faulted = True
                        bump("fault:disk_error:fired")
                        if fs.fired[-1][0] == "write" and res.get("file"):
                            bump("probe:torn_write_left_partial_file")
                    if len(peer.fired) > nf_peer:
                        faulted = True
                        bump("fault:peer_fail:fired")
                if res.get("pdf"):
                    bump("probe:pdf_built")
                if res.get("layers", 0) >= 2:
                    bump("probe:export_multilayer")
                if res.get("layers", 0) >= 3:
                    bump("probe:export_ge_3_layers")
                if spec["options"].get("labella", {}).get("lineSpacing") is not None:
                    bump("probe:export_with_lineSpacing")
                window = foreign[i]
                if window:
                    bump("fault:interleave:fired")
                    bump("probe:export_after_later_construction")
                bump("fault:interleave:configured")
                if exports_done[i] > 0:
                    bump("probe:reexport")
                    if foreign_exports[i] > 0:
                        bump("probe:reexport_after_foreign_export")
                if failed_export[i] and not faulted:
                    bump("probe:export_after_failed_export")
                if constructed_step[i] is not None and any(
                        e["kind"] == "construct" and e["slot"] == i for e in events) and \
                        any(o[0] == "replace" and o[1] == i for o in plan["ops"][:step]):
                    bump("probe:replace_then_export")
                outcome = res["ret"][0] if res["ret"][0] != "raise" else "raise:" + res["ret"][1]
                events.append({"step": step, "slot": i, "kind": kind, "spec": spec, "readings": readings[i],
                               "tweaks": [list(t) for t in tweaks[i]],
                               "op": op[:4] if kind == "export_file" else op[:2], "result": res,
                               "faulted": faulted, "window_foreign": window, "reexport": exports_done[i],
                               "after_failed_export": failed_export[i]})
                exports_done[i] += 1
                if faulted:
                    failed_export[i] = True
                for j in range(n):
                    if j != i and objs[j] is not None:
                        foreign[j] += 1
                        foreign_exports[j] += 1
        else:
            raise HarnessError("unknown op %r" % (op,))
        log.append([step, kind, op[1] if kind != "clock_advance" else None, outcome])
    stats["ops"] = len(log)
    return {"events": events, "stats": stats, "log": log}


EXC = {"SimAbort": seams.SimAbort, "MemoryError": MemoryError, "KeyboardInterrupt": KeyboardInterrupt}


def _traced(fault, dry, real):
    """Run real() with an exception injected at a seeded fraction of the line
    events that dry() executes inside labella (counted in a forked copy of this
    process).  Returns (result or None, tracer)."""
    k, scope, func = seams.abort_point(dry, fault["scope"], fault["frac"], fault.get("strat"))
    tr = seams.AbortTracer(k, scope, EXC[fault["exc"]], func)
    res = None
    try:
        with tr:
            res = real()
    except (seams.SimAbort, KeyboardInterrupt, MemoryError):
        res = None
    return res, tr


def _reference(job):
    """Pristine child: the same spec, alone: construct, then the one export."""
    if job.get("warnings") == "error":
        import warnings

        warnings.simplefilter("error")
    if job.get("pyopt"):
        from ..util import reimport_labella

        reimport_labella(optimize=1)
    if not job.get("keep_stdout"):
        seams.silence_stdio()
    sys.setrecursionlimit(3000)
    clock = seams.SimClock(replay=job["readings"])
    seams.install_clock(clock)
    fs = seams.MemFS()
    peer = seams.LatexmkStub(fs)
    seams.install_fs_and_peer(fs, peer)
    try:
        tl = _construct(job["spec"])
    except Exception as e:
        return {"construct": "raise:" + type(e).__name__}
    out = {"construct": "ok"}
    for key, value in job.get("tweaks") or []:
        tl.options[key] = value
    if job.get("op") is not None:
        out["result"] = _do_export(tl, job["spec"], fs, job["op"])
    return out


def _first_diff(a, b):
    if a is None or b is None or not isinstance(a, str) or not isinstance(b, str):
        return {"alone": (a if a is None else str(a)[:200]), "in_history": (b if b is None else str(b)[:200])}
    la, lb = a.split("\n"), b.split("\n")
    if len(la) == 1 and len(lb) == 1:
        # SVG is one line: find first differing offset
        k = 0
        while k < min(len(a), len(b)) and a[k] == b[k]:
            k += 1
        return {"offset": k, "alone": a[max(0, k - 60): k + 100], "in_history": b[max(0, k - 60): k + 100]}
    for k in range(max(len(la), len(lb))):
        x = la[k] if k < len(la) else None
        y = lb[k] if k < len(lb) else None
        if x != y:
            return {"line": k, "alone": x, "in_history": y}
    return {}


def execute(plan):
    if plan.get("slots") is None:
        raise HarnessError("plan without slots")
    if plan.get("cold"):
        from ..driver import cold_run

        res = cold_run(NAME, plan)
    else:
        res = run_isolated(_run, plan)
    st = res["stats"]
    counters = dict(st)
    violations = []
    cache = {}
    judged = 0
    nontrivial = False
    for ev in res["events"]:
        if ev["kind"] == "construct":
            key = h64([ev["spec"], ev["readings"], None])
            job = {"spec": ev["spec"], "readings": ev["readings"], "op": None, "pyopt": plan.get("pyopt"),
                   "warnings": plan.get("warnings")}
        else:
            key = h64([ev["spec"], ev["readings"], ev["op"][0], ev["op"][2:], ev.get("tweaks")])
            job = {"spec": ev["spec"], "readings": ev["readings"], "op": ev["op"], "tweaks": ev.get("tweaks"),
                   "pyopt": plan.get("pyopt"), "warnings": plan.get("warnings")}
        if ev["faulted"]:
            counters["exports_exempt_hit_by_fault"] = counters.get("exports_exempt_hit_by_fault", 0) + 1
            continue
        if key not in cache:
            cache[key] = run_isolated(_reference, job)
            counters["references_computed"] = counters.get("references_computed", 0) + 1
            if plan.get("cold_crosscheck") and not counters.get("cold_reference_crosschecks"):
                from ..driver import cold_reference

                cold = cold_reference(NAME, job)
                counters["cold_reference_crosschecks"] = 1
                if cold != cache[key]:
                    raise HarnessError("fork-from-pristine reference differs from a cold interpreter")
        ref = cache[key]
        if ev["kind"] == "construct":
            judged += 1
            if ref["construct"] != "ok" and ev["outcome"] == ref["construct"]:
                counters["probe:construct_raised_both"] = counters.get("probe:construct_raised_both", 0) + 1
            if ev["outcome"] != ref["construct"] and not violations:
                violations.append({"property": "C10", "class": "construct_outcome_differs", "step": ev["step"],
                                   "detail": {"slot": ev["slot"], "alone": ref["construct"],
                                              "in_history": ev["outcome"], "spec": ev["spec"]}})
            continue
        judged += 1
        if ev["window_foreign"] or ev["reexport"] or ev.get("after_failed_export"):
            nontrivial = True
        if ref["construct"] != "ok":
            # the object exists here but cannot be constructed alone
            if not violations:
                violations.append({"property": "C10", "class": "construct_outcome_differs", "step": ev["step"],
                                   "detail": {"slot": ev["slot"], "alone": ref["construct"], "in_history": "ok"}})
            continue
        if plan.get("hashseed_ref") and not counters.get("hashseed_references") and not plan.get("pyopt") \
                and not plan.get("warnings"):
            from ..driver import cold_reference

            counters["hashseed_references"] = 1
            other = cold_reference(NAME, job, hashseed=plan["hashseed_ref"])
            if other != ref and not violations:
                d = _first_diff(_text(ref.get("result", {}).get("ret", ["", ""])[1]),
                                _text(other.get("result", {}).get("ret", ["", ""])[1]))
                violations.append({"property": "C10", "class": "export_depends_on_hash_seed", "step": ev["step"],
                                   "detail": {"slot": ev["slot"], "hash_seed": plan["hashseed_ref"],
                                              "first_difference": d,
                                              "note": "the same spec alone in two fresh interpreters (PYTHONHASHSEED 0 and %d) "
                                                      "gives different documents" % plan["hashseed_ref"]}})
        want, got = ref["result"], ev["result"]
        if want["ret"][0] == "raise" and got["ret"] == want["ret"]:
            counters["probe:export_raised_both"] = counters.get("probe:export_raised_both", 0) + 1
        # files are an outcome of this op only when the export completed; after an
        # export that raised (alone and here alike) whatever lies at a re-used
        # path is residue of earlier ops
        keys = ("ret", "file", "pdf") if (want["ret"][0] == "ok" and got["ret"][0] == "ok") else ("ret",)
        differs = [k for k in keys if got.get(k) != want.get(k)]
        if differs and not violations:
            which = differs[0]
            if which == "ret":
                d = _first_diff(want["ret"][1] if want["ret"][0] == "ok" else str(want["ret"]),
                                got["ret"][1] if got["ret"][0] == "ok" else str(got["ret"]))
            else:
                d = _first_diff(want.get(which), got.get(which))
            cls = "export_differs_from_alone"
            if ev["reexport"] and not ev["window_foreign"]:
                cls = "reexport_differs"
            if ev.get("after_failed_export"):
                cls = "export_differs_after_failed_export"
            violations.append({"property": "C10", "class": cls, "step": ev["step"],
                               "detail": {"slot": ev["slot"], "differs_in": which, "first_difference": d,
                                          "foreign_ops_since_construction": ev["window_foreign"],
                                          "reexport_number": ev["reexport"], "backend": ev["spec"]["backend"],
                                          "scale": ev["spec"]["scale"]}})
    counters["checked_steps"] = judged
    fired = sum(st.get("fault:%s:fired" % k, 0) for k in ("clock_jump", "disk_error", "peer_fail", "abort"))
    counters["runs_fault_injecting" if fired else "runs_fault_free"] = 1
    owners = [o[1] for o in plan["ops"] if o[0] == "construct" and o[1] < len(plan["slots"])]
    sets = {
        "interleavings(op-kind/slot sequences)": [h64([(o[0], o[1] if o[0] != "clock_advance" else None) for o in plan["ops"]])],
        "shared_scale_owner_sequences": [h64(owners)],
        "backend_scale_mixes": [h64(sorted((s["backend"], s["scale"]) for s in plan["slots"]))],
    }
    slim = [[e["step"], e["kind"], e.get("outcome"), (sha(str(e.get("result"))) if e.get("result") else None)]
            for e in res["events"]]
    return {
        "violations": violations,
        "counters": counters,
        "sets": sets,
        "digest": digest([res["log"], slim]),
        "nontrivial": nontrivial and judged > 0,
    }


def simulated_time(counters):
    s = counters.get("simulated_seconds", 0)
    return {"unit": "simulated wall-clock seconds advanced by CLOCK_ADVANCE ops", "seconds": s,
            "days": round(s / 86400.0, 1)}


# ------------------------------------------------------------------ shrinking

def _spec_simplifiers(spec):
    if len(spec["items"]) > 1:
        for j in range(len(spec["items"])):
            s = copy.deepcopy(spec)
            del s["items"][j]
            yield s
    for k in list(spec["options"].keys()):
        s = copy.deepcopy(spec)
        del s["options"][k]
        yield s
    if isinstance(spec["options"].get("labella"), dict):
        for k in list(spec["options"]["labella"].keys()):
            s = copy.deepcopy(spec)
            del s["options"]["labella"][k]
            yield s
    if spec["backend"] == "tex":
        s = copy.deepcopy(spec)
        s["backend"] = "svg"
        yield s
    for j, it in enumerate(spec["items"]):
        if "text" in it and "width" in it:
            s = copy.deepcopy(spec)
            del s["items"][j]["text"]
            yield s


def simplifiers(plan, prop):
    for i, spec in enumerate(plan["slots"]):
        for s in _spec_simplifiers(spec):
            p = copy.deepcopy(plan)
            p["slots"][i] = s
            yield p
    for k, op in enumerate(plan["ops"]):
        if op[0] == "replace":
            for s in _spec_simplifiers(op[2]):
                p = copy.deepcopy(plan)
                p["ops"][k][2] = s
                yield p
        if op[0] in ("export", "construct") and len(op) > 2:
            p = copy.deepcopy(plan)
            p["ops"][k] = op[:2]
            yield p
        if op[0] == "export_file":
            if op[4]:
                p = copy.deepcopy(plan)
                p["ops"][k][4] = None
                yield p
            p = copy.deepcopy(plan)
            p["ops"][k] = ["export", op[1]]
            yield p
    if plan["clock"]["tick_s"]:
        p = copy.deepcopy(plan)
        p["clock"]["tick_s"] = 0
        yield p
    if len(plan["slots"]) > 2:
        used = {o[1] for o in plan["ops"] if o[0] != "clock_advance"}
        for i in range(len(plan["slots"]) - 1, -1, -1):
            if i not in used and i == len(plan["slots"]) - 1:
                p = copy.deepcopy(plan)
                del p["slots"][i]
                yield p


def finding_signature(plan, violation):
    return {"class": violation["class"], "op_kinds": [o[0] for o in plan["ops"]]}
