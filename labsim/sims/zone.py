# -*- coding: utf-8 -*-
"""ZONE simulation - decides C18 (results do not depend on the process's
local time zone).  DESIGN.md section 4.4.

The system under simulation is labella's time code running on top of the
operating system's local-time function.  The simulator owns that seam: it
chooses the zone (tzdata or a synthetic POSIX rule whose DST jumps are placed
inside the workload's own time domain), executes the workload in a pristine
child under UTC and in another under the zone, and requires the two recorded
outcome lists to be identical.
"""

import copy
import datetime
import json
import math
import os
import subprocess
import sys

from .. import seams
from ..iso import run_isolated
from ..util import HarnessError, VERIF, canon, digest, h64, iso2dt, sha

NAME = "zone"
PROPERTIES = ["C18"]

BUDGET = {
    "quick": {"runs": 40000, "wall": 55, "chunk": 40, "shrink_evals": 300},
    "thorough": {"runs": 2000000, "wall": 840, "chunk": 100, "shrink_evals": 600},
}

FAULT_KINDS = ["tz_offset", "dst_gap", "dst_fold"]

PROBES = [
    "gap_hit_by_floor", "gap_hit_by_ceil", "gap_hit_by_range", "gap_hit_by_domain_end",
    "gap_hit_by_result", "fold_hit", "pre1970_domain", "offset_45min", "offset_odd_minutes",
    "week_crossing_jump", "timeline_exported", "tex_timeline_exported", "time_of_day_input",
    "ticks_ms", "ticks_seconds", "ticks_minutes", "ticks_hours", "ticks_days", "ticks_weeks",
    "ticks_months", "ticks_years", "nice_with_skip", "reversed_domain",
    "jump_inside_domain", "outcome_raise_both", "outcome_timeout_both", "aware_inputs_run",
]

RULE = (
    "Each run draws, from one PRNG seeded by sha256(VERIF_SEED:zone:i), a time domain "
    "(1 ms .. 250 years, 1900..2200), a zone (11 tzdata zones or a synthetic POSIX rule "
    "with odd-minute offset and a DST jump placed inside the domain with p~0.7) and 10-30 "
    "operations (calendar floor/ceil/round/offset/range for 7 units, TimeScale map/invert/"
    "nice/ticks/copy, TimelineSVG/TimelineTex export). The plan is executed in a pristine "
    "forked child under UTC and in another under the zone; outcome lists must be identical "
    "(bit-exact floats, ISO datetimes, document hashes, or exception type). A run is "
    "non-trivial if its zone differs from UTC at some instant of the workload (measured: "
    "some datetime has a non-zero UTC offset or lies in a skipped/repeated local hour) and "
    "at least one operation was compared; distinct = distinct (zone rule, op-kind sequence, "
    "domain granularity) signatures."
)

ASSUMPTIONS = [
    "glibc localtime/mktime honour TZ set by tzset() in a forked child exactly as at process start (cross-checked against real subprocesses in `labsim selftest tzexec` and on a sample in the thorough tier)",
    "synthetic POSIX rules apply DST only from 1970 on; earlier instants see the zone offset only",
    "datetime.time inputs read the simulated zone-free clock, so 'today' cannot differ between the two executions",
    "the fold attribute of returned datetimes is not compared (it is invisible to ==, hashing and formatting)",
    "sampling: a clean batch is evidence, not proof",
]

COMPONENTS = {
    "real": ["labella.scale.TimeScale/LinearScale", "labella.d3_time (all intervals)",
             "labella.timeline.TimelineSVG/TimelineTex", "labella.force/distributor/removeOverlap/vpsc/renderer",
             "glibc localtime_r/mktime", "CPython datetime"],
    "simulated": ["zone definition (TZ rule: offset, DST jump placement)"],
    "stub": ["datetime.date.today() as seen by labella.timeline (simulated clock)"],
}

UNITS = ["second", "minute", "hour", "day", "week", "month", "year"]
UNIT_MS = {"second": 1e3, "minute": 6e4, "hour": 36e5, "day": 864e5,
           "week": 6048e5, "month": 2592e6, "year": 31536e6}
STEPS = [1e3, 5e3, 15e3, 3e4, 6e4, 3e5, 9e5, 18e5, 36e5, 108e5, 216e5, 432e5,
         864e5, 1728e5, 6048e5, 2592e6, 7776e6, 31536e6]

TZDATA = ["UTC", "US/Eastern", "Asia/Kolkata", "Australia/Lord_Howe", "Pacific/Chatham",
          "America/St_Johns", "Asia/Kathmandu", "Europe/London", "Africa/Casablanca",
          "Pacific/Apia", "America/Sao_Paulo",
          # DST starting at local midnight
          "America/Havana", "America/Santiago",
          # west of UTC without / with DST
          "Pacific/Honolulu", "America/Los_Angeles",
          # UTC look-alikes: offset 0 and no DST today, but not always in the past
          "Africa/Sao_Tome", "Africa/Monrovia", "America/Danmarkshavn", "Africa/Bissau"]
NO_DST_ZONES = ("UTC", "Asia/Kolkata", "Asia/Kathmandu", "Pacific/Honolulu")

EPOCH = datetime.datetime(1970, 1, 1)
OP_DEADLINE_S = 5
MINDT = datetime.datetime(1900, 1, 1)
MAXDT = datetime.datetime(2200, 12, 31)


def _ms(dt):
    return dt.replace(microsecond=(dt.microsecond // 1000) * 1000)


def _clip(dt):
    return max(MINDT, min(MAXDT, dt))


def _add_ms(dt, ms):
    try:
        return _clip(dt + datetime.timedelta(milliseconds=ms))
    except OverflowError:
        return MAXDT if ms > 0 else MINDT


# ------------------------------------------------------------------ zone generation

def _tzdata_transitions(name, year):
    """Local wall-clock instants (naive, standard side) at which `name`
    changes its UTC offset during `year`, found with zoneinfo (no tzset)."""
    try:
        import zoneinfo

        z = zoneinfo.ZoneInfo(name)
    except Exception:
        return []
    out = []
    utc = datetime.timezone.utc
    t = datetime.datetime(year, 1, 1, tzinfo=utc)
    prev = t.astimezone(z).utcoffset()
    for d in range(1, 367):
        t2 = t + datetime.timedelta(days=1)
        off = t2.astimezone(z).utcoffset()
        if off != prev:
            lo, hi = t, t2
            while hi - lo > datetime.timedelta(minutes=1):
                mid = lo + (hi - lo) / 2
                if mid.astimezone(z).utcoffset() == prev:
                    lo = mid
                else:
                    hi = mid
            hi = hi.replace(second=0, microsecond=0)
            local_before = (hi + prev).replace(tzinfo=None)
            out.append([local_before, int((off - prev).total_seconds() // 60)])
            prev = off
        t = t2
    return out


_ALL_TR = {}


def _tzdata_all_transitions(name):
    """Every offset change of `name` between 1971 and 2037 (cached per worker)."""
    if name not in _ALL_TR:
        out = []
        for y in range(1971, 2038):
            out.extend(_tzdata_transitions(name, y))
        _ALL_TR[name] = out
    return _ALL_TR[name]


def _fmt_off(minutes_east):
    # POSIX sign is inverted: UTC+3:17 is written "-3:17"
    m = -minutes_east
    sign = "-" if m < 0 else ""
    m = abs(m)
    return "%s%d:%02d" % (sign, m // 60, m % 60)


def _posix_rule(offset_min, dst_min, start, end):
    """start/end: [zero-based day of year, hour, minute] in local wall time
    before the jump."""
    if not dst_min:
        return "<SIM>%s" % _fmt_off(offset_min)
    return "<SIM>%s<SIMD>%s,%d/%d:%02d,%d/%d:%02d" % (
        _fmt_off(offset_min), _fmt_off(offset_min + dst_min),
        start[0], start[1], start[2], end[0], end[1], end[2])


def _doy0(dt):
    return dt.timetuple().tm_yday - 1


def gen_zone(rng, t0, t1):
    """Returns (zone dict, list of interesting local instants near jumps)."""
    hot = []
    if rng.random() < 0.35:
        name = rng.choice(TZDATA[1:]) if rng.random() < 0.95 else "UTC"
        zone = {"kind": "tzdata", "tz": name}
        return zone, hot
    # synthetic POSIX rule
    r = rng.random()
    if r < 0.25:
        offset = rng.choice([-720, -600, -300, -60, 60, 120, 330, 345, 480, 525, 570, 630, 765, 840])
    elif r < 0.35:
        offset = rng.choice([-1, 1, -7, 13, 59, 61])
    else:
        offset = rng.randrange(-12 * 60, 14 * 60 + 1)
    dst = rng.choice([0, 20, 30, 60, 60, 60, 120]) if rng.random() < 0.75 else 0
    zone = {"kind": "posix", "offset_min": offset, "dst_min": dst}
    if dst:
        span = t1 - t0
        if rng.random() < 0.7:
            # fault placement: the jump lands inside the run's own time domain
            mode = rng.random()
            if mode < 0.15:
                g = t0
            elif mode < 0.3:
                g = t1
            else:
                g = t0 + span * rng.random()
            if rng.random() < 0.4:
                # on a tick / calendar boundary
                g = g.replace(minute=0, second=0, microsecond=0)
                if rng.random() < 0.5:
                    g = g.replace(hour=0)
        else:
            g = datetime.datetime(2001, 1, 1) + datetime.timedelta(minutes=rng.randrange(0, 365 * 1440))
        g = g.replace(second=0, microsecond=0)
        # second jump: also inside the domain when the domain is long enough
        if span > datetime.timedelta(days=3) and rng.random() < 0.6:
            e = t0 + span * rng.random()
        else:
            e = g + datetime.timedelta(days=rng.randrange(60, 300), minutes=rng.randrange(0, 1440))
        e = e.replace(second=0, microsecond=0)
        if abs(_doy0(e) - _doy0(g)) < 2:
            e = e + datetime.timedelta(days=40)
        if rng.random() < 0.5:
            start, end = g, e   # gap at g, fold before e
        else:
            start, end = e, g
        zone["start"] = [_doy0(start), start.hour, start.minute]
        zone["end"] = [_doy0(end), end.hour, end.minute]
        shift = datetime.timedelta(minutes=dst)
        for y in sorted({t0.year, t1.year, g.year}):
            for (doy, hh, mm), kind in ((zone["start"], "gap"), (zone["end"], "fold")):
                try:
                    base = datetime.datetime(y, 1, 1) + datetime.timedelta(days=doy, hours=hh, minutes=mm)
                except OverflowError:
                    continue
                if kind == "gap":
                    hot.extend([base, base + shift / 2, base + shift, base - datetime.timedelta(milliseconds=1),
                                base + shift * 3 / 2, base - shift / 2])  # incl. one shift later / earlier
                else:
                    hot.extend([base - shift, base - shift / 2, base, base - datetime.timedelta(milliseconds=1),
                                base + shift / 2, base - shift * 3 / 2])
    zone["tz"] = _posix_rule(offset, dst, zone.get("start"), zone.get("end"))
    return zone, hot


# ------------------------------------------------------------------ workload generation

def gen_domain(rng, zone_hint=None):
    lvl = rng.randrange(-1, len(STEPS) + 2)
    if lvl < 0:
        span_ms = rng.choice([1, 2, 7, 40, 250, 999, 1500])
    elif lvl >= len(STEPS):
        span_ms = 31536e6 * rng.choice([12, 30, 80, 150, 250])
    else:
        span_ms = STEPS[lvl] * 10 * (0.3 + 2.7 * rng.random())
    span_ms = max(1, int(span_ms))
    r = rng.random()
    # instants beyond ~2106 (2**32 s) lose microsecond precision in the
    # library's float milliseconds; nice() can then spin for ever in *every*
    # zone (an input defect outside C18), so that region is rationed.
    span_years = int(span_ms / 31536e6) + 1
    if r < 0.86:
        lo, hi = 1971, 2090
    elif r < 0.98:
        lo, hi = 1900, 1970
    else:
        lo, hi = 2090, 2190
    if r < 0.98 and hi - span_years <= lo:
        lo, hi = 1900, 2090
    y = rng.randrange(lo, max(lo + 1, hi - span_years))
    t0 = datetime.datetime(y, 1, 1) + datetime.timedelta(
        days=rng.randrange(0, 365), milliseconds=rng.randrange(0, 86400000))
    if rng.random() < 0.3:
        t0 = t0.replace(minute=0, second=0, microsecond=0)
    t0 = _clip(_ms(t0))
    t1 = _add_ms(t0, span_ms)
    if t1 <= t0:
        t0 = _add_ms(t1, -span_ms)
    return t0, t1, lvl


class _Picker(object):
    def __init__(self, rng, t0, t1, hot):
        self.rng, self.t0, self.t1, self.hot = rng, t0, t1, hot
        self.span_ms = max(1, int((t1 - t0) / datetime.timedelta(milliseconds=1)))

    def dt(self):
        rng = self.rng
        r = rng.random()
        if self.hot and r < 0.3:
            base = rng.choice(self.hot)
            d = base + datetime.timedelta(milliseconds=rng.choice([0, 0, 1, -1, 1000, 60000, -60000, 599999]))
        elif r < 0.45:
            d = _add_ms(self.t0, rng.randrange(0, self.span_ms + 1))
            k = rng.random()
            if k < 0.3:
                d = d.replace(microsecond=0)
            elif k < 0.55:
                d = d.replace(second=0, microsecond=0)
            elif k < 0.8:
                d = d.replace(minute=0, second=0, microsecond=0)
            else:
                d = d.replace(hour=0, minute=0, second=0, microsecond=0)
        else:
            ext = max(1, self.span_ms // 10)
            d = _add_ms(self.t0, rng.randrange(-ext, self.span_ms + ext + 1))
        return _clip(_ms(d)).isoformat()


def _unit_for_span(rng, span_ms):
    """Units whose range over the span stays small (<= ~400 steps)."""
    ok = [u for u in UNITS if span_ms / UNIT_MS[u] <= 400]
    return rng.choice(ok) if ok else "year"


def gen_timeline_op(rng, pick, t0, t1):
    n = rng.choice([1, 2, 3, 3, 5, 8])
    kind = rng.random()
    items = []
    for i in range(n):
        it = {}
        if kind < 0.75:
            it["time"] = ["dt", pick.dt()]
        elif kind < 0.9:
            it["time"] = ["d", iso2dt(pick.dt()).date().isoformat()]
        else:
            d = iso2dt(pick.dt())
            it["time"] = ["t", d.time().isoformat()]
        if rng.random() < 0.6:
            it["text"] = rng.choice(["a", "label", "Event %d" % i, "x y z"])
            it["width"] = rng.choice([20, 35, 50, 80])
        elif rng.random() < 0.5:
            it["width"] = rng.choice([10, 30, 50, 75.5])
        items.append(it)
    opts = {}
    if rng.random() < 0.6:
        opts["direction"] = rng.choice(["up", "down", "left", "right"])
    if rng.random() < 0.3:
        opts["initialWidth"] = rng.choice([300, 600, 804])
        opts["initialHeight"] = rng.choice([250, 400, 700])
    if rng.random() < 0.25 and kind < 0.9:
        opts["domain"] = sorted([pick.dt(), pick.dt()])
        if opts["domain"][0] == opts["domain"][1]:
            del opts["domain"]
    if rng.random() < 0.2:
        opts["showTicks"] = False
    opts["scale"] = rng.choice(["default", "own_time", "own_time"])
    backend = rng.choice(["svg", "svg", "tex"])
    if backend == "tex" and rng.random() < 0.5:
        lat = {}
        if rng.random() < 0.7:
            lat["reproducible"] = True
        if rng.random() < 0.3:
            lat["fontsize"] = rng.choice(["10pt", "12pt"])
        if rng.random() < 0.3:
            lat["tickCross"] = True
        opts["latex"] = lat
    if rng.random() < 0.15:
        opts["layerGap"] = rng.choice([30, 100])
    if rng.random() < 0.15:
        opts["labella"] = {"maxPos": rng.choice([200, 500]), "algorithm": rng.choice(["overlap", "simple"])}
    return ["timeline", backend, items, opts]


def gen_plan(rng, tier):
    t0, t1, lvl = gen_domain(rng)
    zone, hot = gen_zone(rng, t0, t1)
    if zone["kind"] == "tzdata" and zone["tz"] != "UTC" and rng.random() < 0.6:
        # move the domain onto one of the zone's real transitions
        y = rng.randrange(1971, 2037)
        trs = _tzdata_transitions(zone["tz"], y)
        allt = _tzdata_all_transitions(zone["tz"])
        if allt and (not trs or len(allt) <= 6):
            # zones with only a handful of historical offset changes: aim at one of them
            trs = allt
        if trs:
            tr, delta = rng.choice(trs)
            span = t1 - t0
            t0 = _clip(_ms(tr - span * rng.random()))
            t1 = _clip(t0 + span)
            sh = datetime.timedelta(minutes=abs(delta))
            hot = [tr, tr + sh / 2, tr - sh / 2, tr - sh, tr + sh, tr - datetime.timedelta(milliseconds=1),
                   tr + sh * 3 / 2, tr - sh * 3 / 2]
    pick = _Picker(rng, t0, t1, hot)
    span_ms = pick.span_ms
    ops = []
    nops = rng.randrange(10, 31)
    for _ in range(nops):
        r = rng.random()
        if r < 0.3:
            unit = rng.choice(UNITS)
            m = rng.choice(["floor", "ceil", "round", "offset", "call", "doy"])
            op = ["iv", unit, m, pick.dt()]
            if m == "offset":
                op.append(rng.choice([1, 1, 2, 3, 5, 12, 0]))
            ops.append(op)
        elif r < 0.45:
            unit = _unit_for_span(rng, span_ms)
            a = pick.dt()
            n = rng.randrange(1, 60)
            b = _add_ms(iso2dt(a), int(n * UNIT_MS[unit] * (0.5 + rng.random()))).isoformat()
            ops.append(["range", unit, a, b, rng.choice([1, 1, 1, 2, 3, 5, 7, 10, 15])])
        elif r < 0.9:
            a, b = t0.isoformat(), t1.isoformat()
            if rng.random() < 0.3:
                a, b = pick.dt(), pick.dt()
            if rng.random() < 0.15:
                a, b = b, a
            rr = rng.choice([[0, 1], [0, 500], [0, 960], [500, 0], [-20.5, 733.25], [1e-3, 1e6]])
            sub = []
            for _ in range(rng.randrange(1, 7)):
                k = rng.random()
                if k < 0.25:
                    sub.append(["call", pick.dt()])
                elif k < 0.4:
                    lo, hi = min(rr), max(rr)
                    sub.append(["invert", lo + (hi - lo) * rng.choice([0, 1, 0.5, rng.random(), -0.1, 1.1])])
                elif k < 0.5:
                    sub.append(["domain"])
                elif k < 0.7:
                    c = rng.random()
                    if c < 0.4:
                        sub.append(["nice", None])
                    elif c < 0.7:
                        sub.append(["nice", rng.choice([2, 5, 10, 20])])
                    else:
                        sub.append(["nice_iv", rng.choice(UNITS), rng.choice([0, 1, 1, 2, 3, 5])])
                elif k < 0.92:
                    sub.append(["ticks", rng.choice([None, None, 2, 5, 10, 20, 1, 3, 7, 50])])
                elif k < 0.94:
                    sub.append(["ticks_iv", rng.choice(UNITS), rng.choice([1, 2, 5])])
                elif k < 0.955:
                    sub.append(["deepcopy"])
                elif k < 0.97:
                    sub.append(["copy"])
                else:
                    sub.append(["clamp", rng.random() < 0.7])
            ops.append(["scale", [a, b], rr, sub])
        else:
            ops.append(gen_timeline_op(rng, pick, t0, t1))
    clock_start = datetime.datetime(rng.randrange(1990, 2060), rng.randrange(1, 13), rng.randrange(1, 29),
                                    rng.choice([0, 12, 23]), rng.choice([0, 59]), rng.choice([0, 59]))
    plan = {
        "sim": NAME,
        "zone": zone,
        "domain": [t0.isoformat(), t1.isoformat()],
        "level": lvl,
        "clock": {"start": clock_start.isoformat(), "tick_s": rng.choice([0, 0, 0.5, 3600])},
        "ops": ops,
    }
    if rng.random() < 0.05:
        # "time zones are ignored": inputs that carry a tzinfo must be treated by
        # their wall-clock fields, whatever the zone of the process
        plan["aware"] = rng.choice([0, 120, -300, 330, 765])
    elif rng.random() < 0.04:
        plan["fold"] = 1
    if tier == "thorough" and rng.random() < 0.003:
        plan["subprocess_crosscheck"] = True
    return plan


def plan_signature(plan):
    return [plan["zone"]["tz"], plan.get("level"),
            [(o[0], o[1] if o[0] in ("iv", "range") else len(o[-1])) for o in plan["ops"]]]


# ------------------------------------------------------------------ execution (inside a child)

def _mk_scale(which):
    from labella.scale import TimeScale

    if which == "own_time":
        return TimeScale()
    return None


_AWARE = None  # minutes east of UTC attached to every input datetime of this execution, or None
_FOLD = False  # every input datetime carries fold=1


def _in(iso):
    d = iso2dt(iso)
    if _FOLD:
        d = d.replace(fold=1)  # legal on naive values (PEP 495); must make no difference
    if _AWARE is not None:
        d = d.replace(tzinfo=datetime.timezone(datetime.timedelta(minutes=_AWARE)))
    return d


def _exec_op(op, stats, all_dts):
    """Returns the raw outcome of one op (canonicalised by the caller)."""
    from labella.d3_time import d3_time
    from labella.scale import TimeScale

    kind = op[0]
    if kind == "iv":
        _, unit, m, d = op[:4]
        d = _in(d)
        all_dts.append(("in_" + m, d))
        iv = d3_time[unit]
        if m == "offset":
            res = iv.offset(d, op[4])
        elif m == "call":
            res = iv(d)
        elif m == "doy":
            return [d3_time["dayOfYear"](d), d3_time["week"]._number(d)]
        else:
            res = getattr(iv, m)(d)
        all_dts.append(("out", res))
        return res
    if kind == "range":
        _, unit, a, b, step = op
        a, b = _in(a), _in(b)
        all_dts.append(("in_range", a))
        all_dts.append(("in_range", b))
        # the plural aliases (d3_time["hours"] ...) are the same functions; use them half the time
        fn = d3_time[unit + "s"] if (step % 2 == 0 and (unit + "s") in d3_time) else d3_time[unit].range
        res = fn(a, b, step)
        for x in res[:50]:
            all_dts.append(("out_range", x))
        return res
    if kind == "scale":
        _, dom, rr, sub = op
        dom = [_in(dom[0]), _in(dom[1])]
        for x in dom:
            all_dts.append(("in_domain", x))
        s = TimeScale().domain(dom).range(list(rr))
        out = []
        for so in sub:
            try:
                if so[0] == "call":
                    x = _in(so[1])
                    all_dts.append(("in_call", x))
                    out.append(s(x))
                elif so[0] == "invert":
                    r = s.invert(so[1])
                    all_dts.append(("out", r))
                    out.append(r)
                elif so[0] == "domain":
                    out.append(s.domain())
                elif so[0] == "nice":
                    if so[1] is None:
                        s.nice()
                    else:
                        s.nice(so[1])
                    r = s.domain()
                    for x in r:
                        all_dts.append(("out_domain", x))
                    out.append(r)
                elif so[0] == "nice_iv":
                    s.nice(d3_time[so[1]], so[2])
                    if so[2] > 1:
                        stats["probe:nice_with_skip"] = stats.get("probe:nice_with_skip", 0) + 1
                    r = s.domain()
                    for x in r:
                        all_dts.append(("out_domain", x))
                    out.append(r)
                elif so[0] == "ticks":
                    ts = s.ticks() if so[1] is None else s.ticks(so[1])
                    ts = list(ts)
                    for x in ts[:50]:
                        all_dts.append(("out_range", x))
                    fmt = s.tickFormat()
                    out.append([ts, [fmt(t) for t in ts], [s(t) for t in ts]])
                    _tick_probe(ts, stats)
                elif so[0] == "copy":
                    s = s.copy()
                    out.append("copied")
                elif so[0] == "clamp":
                    s.clamp(so[1])
                    out.append(s.clamp())
                elif so[0] == "deepcopy":
                    import copy as _copy

                    s = _copy.deepcopy(s)
                    out.append(["deepcopied", s.domain()])
                elif so[0] == "ticks_iv":
                    ts = list(s.ticks(d3_time[so[1]], so[2]))
                    out.append(ts)
            except seams.SimTimeout:
                raise
            except Exception as e:
                out.append(["raise", type(e).__name__])
        return out
    if kind == "timeline":
        return _exec_timeline(op, stats, all_dts)
    raise HarnessError("unknown op %r" % (op,))


def _tick_probe(ts, stats):
    if len(ts) < 2:
        return
    d = abs((ts[1] - ts[0]).total_seconds())
    if d < 1:
        k = "ticks_ms"
    elif d < 60:
        k = "ticks_seconds"
    elif d < 3600:
        k = "ticks_minutes"
    elif d < 86400:
        k = "ticks_hours"
    elif d < 7 * 86400:
        k = "ticks_days"
    elif d < 28 * 86400:
        k = "ticks_weeks"
    elif d < 365 * 86400:
        k = "ticks_months"
    else:
        k = "ticks_years"
    stats["probe:" + k] = stats.get("probe:" + k, 0) + 1


def decode_time(t):
    if t[0] == "dt":
        return iso2dt(t[1])
    if t[0] == "d":
        return datetime.date.fromisoformat(t[1])
    if t[0] == "t":
        return datetime.time.fromisoformat(t[1])
    if t[0] == "n":
        return t[1]
    raise HarnessError("bad time %r" % (t,))


def _exec_timeline(op, stats, all_dts):
    from labella.timeline import TimelineSVG, TimelineTex
    from labella.scale import TimeScale

    _, backend, items, opts = op
    data = []
    for it in items:
        d = {"time": _in(it["time"][1]) if it["time"][0] == "dt" else decode_time(it["time"])}
        if it["time"][0] == "t":
            stats["probe:time_of_day_input"] = stats.get("probe:time_of_day_input", 0) + 1
        elif it["time"][0] == "dt":
            all_dts.append(("in_item", d["time"]))
        for k in ("text", "width"):
            if k in it:
                d[k] = it[k]
        data.append(d)
    options = {k: copy.deepcopy(v) for k, v in opts.items() if k != "scale"}
    if "domain" in options:
        options["domain"] = [_in(x) for x in options["domain"]]
    if opts.get("scale") == "own_time":
        options["scale"] = TimeScale()
    cls = TimelineSVG if backend == "svg" else TimelineTex
    tl = cls(data, options=options)
    doc = tl.export()
    after = None
    if opts.get("scale") == "own_time":
        # the caller's own scale is used again after the timeline has been dropped and collected
        import gc as _gc

        sc = options["scale"]
        del tl
        _gc.collect()
        try:
            after = [sc.domain(), list(sc.ticks())[:20], sc.range()]
        except Exception as e:
            after = ["raise", type(e).__name__]
    stats["probe:timeline_exported"] = stats.get("probe:timeline_exported", 0) + 1
    if backend == "tex":
        stats["probe:tex_timeline_exported"] = stats.get("probe:tex_timeline_exported", 0) + 1
    if isinstance(doc, str):
        doc = doc.encode("utf-8")
    return ["doc", sha(doc), len(doc), after]


def _strip_fold(x):
    return x


def _canon_nofold(x):
    c = canon(x)
    return _drop_fold(c)


def _drop_fold(c):
    if isinstance(c, list):
        if len(c) == 3 and c[0] == "dt" and isinstance(c[1], str):
            return ["dt", c[1]]
        return [_drop_fold(e) for e in c]
    if isinstance(c, dict):
        return {k: _drop_fold(v) for k, v in c.items()}
    return c


def execute_under(arg):
    """Child body: run the whole plan under one zone; returns outcomes+stats."""
    plan, tz = arg["plan"], arg["tz"]
    if not arg.get("keep_stdout"):
        seams.silence_stdio()
    global _AWARE, _FOLD
    _AWARE = plan.get("aware")
    _FOLD = bool(plan.get("fold"))
    seams.set_tz(tz)
    # import-time state of the library must be computed under this zone, as it
    # would be in a process started with TZ in its environment
    from ..util import reimport_labella

    reimport_labella()
    clock = seams.SimClock(plan["clock"]["start"], plan["clock"]["tick_s"])
    seams.install_clock(clock)
    stats = {}
    outcomes = []
    timed_out = False
    for i, op in enumerate(plan["ops"]):
        all_dts = []
        if timed_out:
            # one hang per run is enough: the rest is not executed
            outcomes.append(["skipped_after_timeout"])
            continue
        try:
            with seams.op_deadline(OP_DEADLINE_S):
                res = _exec_op(op, stats, all_dts)
            out = ["ok", _canon_nofold(res)]
        except seams.SimTimeout:
            out = ["timeout"]
            timed_out = True
        except HarnessError:
            raise
        except Exception as e:
            out = ["raise", type(e).__name__]
        outcomes.append(out)
        if arg.get("probe"):
            _measure(op, all_dts, stats)
    if arg.get("probe"):
        # does the zone change its offset between the domain ends?
        try:
            a, b = iso2dt(plan["domain"][0]), iso2dt(plan["domain"][1])
            if (a - EPOCH).total_seconds() - a.timestamp() != (b - EPOCH).total_seconds() - b.timestamp():
                stats["probe:jump_inside_domain"] = 1
        except (OverflowError, OSError, ValueError):
            pass
    return {"outcomes": outcomes, "stats": stats, "clock_readings": len(clock.readings)}


def _measure(op, all_dts, stats):
    """Which faults did this op's datetimes actually meet under the zone in
    force (measured through the same OS local-time function)."""
    nonzero = False
    for role, d in all_dts:
        if not isinstance(d, datetime.datetime):
            continue
        if d.tzinfo is not None:
            d = d.replace(tzinfo=None)  # measure the wall-clock fields the library works with
        try:
            off = (d.replace(fold=0) - EPOCH).total_seconds() - d.replace(fold=0).timestamp()
        except (OverflowError, OSError, ValueError):
            continue
        if off != 0:
            nonzero = True
            m = int(round(abs(off) / 60.0)) % 60
            if m == 45:
                stats["probe:offset_45min"] = stats.get("probe:offset_45min", 0) + 1
            elif m not in (0, 30):
                stats["probe:offset_odd_minutes"] = stats.get("probe:offset_odd_minutes", 0) + 1
        hit = seams.dst_probe(d, stats)
        if hit == "gap":
            key = {"in_floor": "gap_hit_by_floor", "in_ceil": "gap_hit_by_ceil",
                   "in_range": "gap_hit_by_range", "out_range": "gap_hit_by_range",
                   "in_domain": "gap_hit_by_domain_end", "out_domain": "gap_hit_by_domain_end"}.get(role, "gap_hit_by_result" if role.startswith("out") else None)
            if key:
                stats["probe:" + key] = stats.get("probe:" + key, 0) + 1
        elif hit == "fold":
            stats["probe:fold_hit"] = stats.get("probe:fold_hit", 0) + 1
        if d.year < 1970 and role == "in_domain":
            stats["probe:pre1970_domain"] = stats.get("probe:pre1970_domain", 0) + 1
    if nonzero:
        stats["ops_under_offset"] = stats.get("ops_under_offset", 0) + 1
    if op[0] == "range" and op[1] == "week" and (stats.get("dst_gap_touched") or stats.get("dst_fold_touched")):
        stats["probe:week_crossing_jump"] = stats.get("probe:week_crossing_jump", 0) + 1


def _jump_inside_domain(plan):
    """Child body: does the zone change its offset between the domain ends?"""
    seams.set_tz(plan["zone"]["tz"])
    a, b = iso2dt(plan["domain"][0]), iso2dt(plan["domain"][1])
    try:
        oa = (a - EPOCH).total_seconds() - a.timestamp()
        ob = (b - EPOCH).total_seconds() - b.timestamp()
    except (OverflowError, OSError, ValueError):
        return False
    return oa != ob


def _subprocess_outcomes(plan, tz):
    env = dict(os.environ)
    env["TZ"] = tz
    env["PYTHONHASHSEED"] = "0"
    p = subprocess.run([sys.executable, os.path.join(VERIF, "bin", "labsim"), "exec-zone-plan"],
                       input=json.dumps(plan), capture_output=True, text=True, env=env, timeout=300)
    if p.returncode != 0:
        raise HarnessError("exec-zone-plan failed: " + p.stderr[-2000:])
    return json.loads(p.stdout)["outcomes"]


def execute(plan):
    ref = run_isolated(execute_under, {"plan": plan, "tz": "UTC"})
    got = run_isolated(execute_under, {"plan": plan, "tz": plan["zone"]["tz"], "probe": True})
    st = got["stats"]
    counters = {"ops": len(plan["ops"]), "runs_executed": 1}
    if plan.get("aware") is not None:
        counters["probe:aware_inputs_run"] = 1
    for k, v in st.items():
        if k.startswith("probe:"):
            counters[k] = v
    zone = plan["zone"]
    under_offset = st.get("ops_under_offset", 0)
    counters["fault:tz_offset:configured"] = 1 if zone["tz"] != "UTC" else 0
    counters["fault:tz_offset:fired"] = 1 if under_offset else 0
    has_dst = bool(zone.get("dst_min")) or (zone["kind"] == "tzdata" and zone["tz"] not in NO_DST_ZONES)
    counters["fault:dst_gap:configured"] = 1 if has_dst else 0
    counters["fault:dst_fold:configured"] = 1 if has_dst else 0
    counters["fault:dst_gap:fired"] = 1 if st.get("dst_gap_touched") else 0
    counters["fault:dst_fold:fired"] = 1 if st.get("dst_fold_touched") else 0
    counters["dst_gap_datetimes"] = st.get("dst_gap_touched", 0)
    counters["dst_fold_datetimes"] = st.get("dst_fold_touched", 0)
    fault_free = not (under_offset or st.get("dst_gap_touched") or st.get("dst_fold_touched"))
    counters["runs_fault_free" if fault_free else "runs_fault_injecting"] = 1
    a, b = iso2dt(plan["domain"][0]), iso2dt(plan["domain"][1])
    counters["simulated_seconds"] = int(abs((b - a).total_seconds())) * 2
    if plan["domain"][0] > plan["domain"][1]:
        counters["probe:reversed_domain"] = 1
    for op in plan["ops"]:
        if op[0] == "scale" and op[1][0] > op[1][1]:
            counters["probe:reversed_domain"] = counters.get("probe:reversed_domain", 0) + 1
    violations = []
    compared = 0
    both_raise = 0
    for i, (r, g) in enumerate(zip(ref["outcomes"], got["outcomes"])):
        compared += 1
        if r[0] == "raise" and g[0] == "raise":
            both_raise += 1
        if r[0] == "timeout" and g[0] == "timeout":
            counters["probe:outcome_timeout_both"] = counters.get("probe:outcome_timeout_both", 0) + 1
        if r != g and not violations:
            violations.append({
                "property": "C18",
                "class": "zone_diff:" + plan["ops"][i][0],
                "step": i,
                "detail": {"op": plan["ops"][i], "zone": zone["tz"],
                           "under_UTC": _trim(r), "under_zone": _trim(g)},
            })
    if both_raise:
        counters["probe:outcome_raise_both"] = both_raise
    counters["checked_steps"] = compared
    if plan.get("subprocess_crosscheck"):
        sub = _subprocess_outcomes(plan, zone["tz"])
        counters["subprocess_crosschecks"] = 1
        if sub != got["outcomes"]:
            raise HarnessError("tzset()-in-child and TZ-at-process-start disagree for zone %r" % zone["tz"])
    sets = {
        "zone_rules": [h64(zone["tz"])],
        "domain_granularity_x_zone": [h64([plan.get("level"), zone["tz"]])],
        "interleavings(op-kind sequences)": [h64([o[0] for o in plan["ops"]])],
    }
    log = {"ref": ref["outcomes"], "got": got["outcomes"]}
    return {
        "violations": violations,
        "counters": counters,
        "sets": sets,
        "digest": digest(log),
        "nontrivial": (not fault_free) and compared > 0,
    }


def _trim(o):
    s = json.dumps(o)
    if len(s) > 600:
        return s[:600] + "...(%d chars)" % len(s)
    return o


def simulated_time(counters):
    s = counters.get("simulated_seconds", 0)
    return {"unit": "seconds of time-domain span x 2 executions (UTC and zone)",
            "seconds": s, "years": round(s / 31557600.0, 1)}


# ------------------------------------------------------------------ shrinking

def _coarser(iso):
    d = iso2dt(iso)
    out = []
    if d.microsecond:
        out.append(d.replace(microsecond=0))
    elif d.second:
        out.append(d.replace(second=0))
    elif d.minute:
        out.append(d.replace(minute=0))
    elif d.hour:
        out.append(d.replace(hour=0))
    return [x.isoformat() for x in out]


def simplifiers(plan, prop):
    zone = plan["zone"]
    if zone["kind"] == "posix":
        if zone.get("dst_min"):
            p = copy.deepcopy(plan)
            z = p["zone"]
            z["dst_min"] = 0
            z.pop("start", None)
            z.pop("end", None)
            z["tz"] = _posix_rule(z["offset_min"], 0, None, None)
            yield p
        if zone["offset_min"] % 60:
            p = copy.deepcopy(plan)
            z = p["zone"]
            z["offset_min"] = int(round(z["offset_min"] / 60.0)) * 60
            z["tz"] = _posix_rule(z["offset_min"], z.get("dst_min", 0), z.get("start"), z.get("end"))
            yield p
        if zone["offset_min"] not in (0, 60, -60):
            for o in (60, -60):
                p = copy.deepcopy(plan)
                z = p["zone"]
                z["offset_min"] = o
                z["tz"] = _posix_rule(o, z.get("dst_min", 0), z.get("start"), z.get("end"))
                yield p
    if plan["clock"]["tick_s"]:
        p = copy.deepcopy(plan)
        p["clock"]["tick_s"] = 0
        yield p
    for i, op in enumerate(plan["ops"]):
        if op[0] == "scale":
            for j in range(len(op[3])):
                p = copy.deepcopy(plan)
                del p["ops"][i][3][j]
                if p["ops"][i][3]:
                    yield p
            if op[2] != [0, 1]:
                p = copy.deepcopy(plan)
                p["ops"][i][2] = [0, 1]
                yield p
            for j in (0, 1):
                for c in _coarser(op[1][j]):
                    p = copy.deepcopy(plan)
                    p["ops"][i][1][j] = c
                    if p["ops"][i][1][0] != p["ops"][i][1][1]:
                        yield p
            for j, so in enumerate(op[3]):
                if so[0] == "call":
                    for c in _coarser(so[1]):
                        p = copy.deepcopy(plan)
                        p["ops"][i][3][j][1] = c
                        yield p
        elif op[0] == "iv":
            for c in _coarser(op[3]):
                p = copy.deepcopy(plan)
                p["ops"][i][3] = c
                yield p
            if op[2] == "offset" and op[4] != 1:
                p = copy.deepcopy(plan)
                p["ops"][i][4] = 1
                yield p
        elif op[0] == "range":
            if op[4] != 1:
                p = copy.deepcopy(plan)
                p["ops"][i][4] = 1
                yield p
            for j in (2, 3):
                for c in _coarser(op[j]):
                    p = copy.deepcopy(plan)
                    p["ops"][i][j] = c
                    yield p
        elif op[0] == "timeline":
            if len(op[2]) > 1:
                for j in range(len(op[2])):
                    p = copy.deepcopy(plan)
                    del p["ops"][i][2][j]
                    yield p
            for k in list(op[3].keys()):
                if k == "scale" and op[3][k] == "own_time":
                    continue
                p = copy.deepcopy(plan)
                if k == "scale":
                    p["ops"][i][3][k] = "own_time"
                else:
                    del p["ops"][i][3][k]
                yield p
            if op[1] == "tex":
                p = copy.deepcopy(plan)
                p["ops"][i][1] = "svg"
                yield p
            for j, it in enumerate(op[2]):
                if "text" in it:
                    p = copy.deepcopy(plan)
                    del p["ops"][i][2][j]["text"]
                    yield p
                if it["time"][0] == "dt":
                    for c in _coarser(it["time"][1]):
                        p = copy.deepcopy(plan)
                        p["ops"][i][2][j]["time"][1] = c
                        yield p


def finding_signature(plan, violation):
    return {"class": violation["class"],
            "zone_has_dst": bool(plan["zone"].get("dst_min")) or plan["zone"]["kind"] == "tzdata"}
