# -*- coding: utf-8 -*-
"""Seeds, canonical encoding, digests, repo import."""

import datetime
import hashlib
import json
import os
import subprocess
import sys

REPO = os.path.realpath(os.environ.get("VERIF_REPO", "/repo"))
VERIF = os.path.dirname(os.path.dirname(os.path.realpath(__file__)))


class HarnessError(Exception):
    """Something went wrong in the machinery itself (never a VIOLATION)."""


def import_labella():
    """Import labella from REPO's working tree and assert that is what we got."""
    if sys.path[0] != REPO:
        sys.path.insert(0, REPO)
    import labella  # noqa

    got = os.path.realpath(os.path.dirname(labella.__file__))
    want = os.path.join(REPO, "labella")
    if got != want:
        raise HarnessError("labella imported from %s, wanted %s" % (got, want))
    # import every module so that forked children never import lazily
    import labella.timeline  # noqa
    import labella.scale  # noqa
    import labella.d3_time  # noqa
    import labella.force  # noqa
    import labella.distributor  # noqa
    import labella.removeOverlap  # noqa
    import labella.vpsc  # noqa
    import labella.node  # noqa
    import labella.renderer  # noqa
    import labella.tex  # noqa
    import labella.metrics  # noqa
    import labella.utils  # noqa

    return labella


def repo_rev():
    try:
        rev = subprocess.check_output(
            ["git", "-C", REPO, "rev-parse", "--short", "HEAD"],
            stderr=subprocess.DEVNULL,
        ).decode().strip()
        dirty = subprocess.check_output(
            ["git", "-C", REPO, "status", "--porcelain", "--untracked-files=no"],
            stderr=subprocess.DEVNULL,
        ).decode().strip()
        return rev + ("+dirty" if dirty else "")
    except Exception:
        return "unknown"


def derive_seed(base, sim, i):
    h = hashlib.sha256(("%d:%s:%d" % (base, sim, i)).encode()).digest()
    return int.from_bytes(h[:8], "big")


def sha(b):
    if isinstance(b, str):
        b = b.encode("utf-8", "surrogatepass")
    return hashlib.sha256(b).hexdigest()


def h64(obj):
    """Short stable hash of a JSON-able object (for 'distinct' counters)."""
    return sha(json.dumps(obj, sort_keys=True))[:12]


def canon(x):
    """Canonical, bit-exact, JSON-able encoding of a library outcome."""
    if x is None or isinstance(x, (bool, str)):
        return x
    if isinstance(x, int):
        return ["i", str(x)]
    if isinstance(x, float):
        return ["f", x.hex()]
    if isinstance(x, datetime.datetime):
        # fold is deliberately part of the value: it is observable state
        return ["dt", x.isoformat(), x.fold]
    if isinstance(x, datetime.date):
        return ["d", x.isoformat()]
    if isinstance(x, datetime.timedelta):
        return ["td", x.days, x.seconds, x.microseconds]
    if isinstance(x, bytes):
        return ["b", sha(x), len(x)]
    if isinstance(x, (list, tuple)):
        return [canon(e) for e in x]
    if isinstance(x, dict):
        return {str(k): canon(v) for k, v in sorted(x.items(), key=lambda kv: str(kv[0]))}
    return ["repr", type(x).__name__]


def digest(obj):
    return sha(json.dumps(obj, sort_keys=True, separators=(",", ":")))


def iso2dt(s):
    return datetime.datetime.fromisoformat(s)


def dt2iso(d):
    return d.isoformat()
