# -*- coding: utf-8 -*-
"""Seeds, canonical encoding, digests, repo import."""

import datetime
import hashlib
import json
import os
import subprocess
import sys

REPO = os.path.realpath(os.environ.get("VERIF_REPO", "/repo"))
VERIF = os.path.dirname(os.path.dirname(os.path.realpath(__file__)))


class HarnessError(Exception):
    """Something went wrong in the machinery itself (never a VIOLATION)."""


def import_labella():
    """Import labella from REPO's working tree and assert that is what we got."""
    if sys.path[0] != REPO:
        sys.path.insert(0, REPO)
    import labella  # noqa

    got = os.path.realpath(os.path.dirname(labella.__file__))
    want = os.path.join(REPO, "labella")
    if got != want:
        raise HarnessError("labella imported from %s, wanted %s" % (got, want))
    # import every module so that forked children never import lazily
    import labella.timeline  # noqa
    import labella.scale  # noqa
    import labella.d3_time  # noqa
    import labella.force  # noqa
    import labella.distributor  # noqa
    import labella.removeOverlap  # noqa
    import labella.vpsc  # noqa
    import labella.node  # noqa
    import labella.renderer  # noqa
    import labella.tex  # noqa
    import labella.metrics  # noqa
    import labella.utils  # noqa

    return labella


# ---- fresh import of labella inside a child (import-time state under the
# ---- child's own environment), served from code objects compiled once

_CODE = {}
_CODE_BY_LEVEL = {}


def _build_code_cache(optimize=0):
    pkgdir = os.path.join(REPO, "labella")
    out = {}
    for fn in sorted(os.listdir(pkgdir)):
        if not fn.endswith(".py"):
            continue
        path = os.path.join(pkgdir, fn)
        name = "labella" if fn == "__init__.py" else "labella." + fn[:-3]
        with open(path, "rb") as f:
            out[name] = (compile(f.read(), path, "exec", optimize=optimize), path, fn == "__init__.py")
    _CODE_BY_LEVEL[optimize] = out
    return out


class _CachedLoader(object):
    def create_module(self, spec):
        return None

    def exec_module(self, module):
        exec(_CODE[module.__name__][0], module.__dict__)


class _CachedFinder(object):
    def find_spec(self, fullname, path=None, target=None):
        if fullname not in _CODE:
            return None
        import importlib.util

        code, fpath, is_pkg = _CODE[fullname]
        return importlib.util.spec_from_file_location(
            fullname, fpath, loader=_CachedLoader(),
            submodule_search_locations=[os.path.dirname(fpath)] if is_pkg else None)


_FINDER = _CachedFinder()


def prepare_reimport():
    """Called once in a worker: compile every labella module of REPO (as the
    interpreter would normally, and as `python -O` would: asserts stripped)."""
    for level in (0, 1):
        if level not in _CODE_BY_LEVEL:
            _build_code_cache(level)
    if not _CODE:
        _CODE.update(_CODE_BY_LEVEL[0])


def reimport_labella(optimize=0):
    """Called in a forked child after its environment (TZ) is in force: drop
    every labella module and import the package again, so that import-time
    state is computed under the child's environment exactly as at process
    start-up."""
    prepare_reimport()
    _CODE.clear()
    _CODE.update(_CODE_BY_LEVEL[1 if optimize else 0])
    for m in list(sys.modules):
        if m == "labella" or m.startswith("labella."):
            del sys.modules[m]
    if _FINDER not in sys.meta_path:
        sys.meta_path.insert(0, _FINDER)
    return import_labella()


def repo_rev():
    try:
        rev = subprocess.check_output(
            ["git", "-C", REPO, "rev-parse", "--short", "HEAD"],
            stderr=subprocess.DEVNULL,
        ).decode().strip()
        dirty = subprocess.check_output(
            ["git", "-C", REPO, "status", "--porcelain", "--untracked-files=no"],
            stderr=subprocess.DEVNULL,
        ).decode().strip()
        return rev + ("+dirty" if dirty else "")
    except Exception:
        return "unknown"


def derive_seed(base, sim, i):
    h = hashlib.sha256(("%d:%s:%d" % (base, sim, i)).encode()).digest()
    return int.from_bytes(h[:8], "big")


def sha(b):
    if isinstance(b, str):
        b = b.encode("utf-8", "surrogatepass")
    return hashlib.sha256(b).hexdigest()


def h64(obj):
    """Short stable hash of a JSON-able object (for 'distinct' counters)."""
    return sha(json.dumps(obj, sort_keys=True))[:12]


def canon(x):
    """Canonical, bit-exact, JSON-able encoding of a library outcome."""
    if x is None or isinstance(x, (bool, str)):
        return x
    if isinstance(x, int):
        return ["i", str(x)]
    if isinstance(x, float):
        return ["f", x.hex()]
    if isinstance(x, datetime.datetime):
        # fold is deliberately part of the value: it is observable state
        return ["dt", x.isoformat(), x.fold]
    if isinstance(x, datetime.date):
        return ["d", x.isoformat()]
    if isinstance(x, datetime.timedelta):
        return ["td", x.days, x.seconds, x.microseconds]
    if isinstance(x, bytes):
        return ["b", sha(x), len(x)]
    if isinstance(x, (list, tuple)):
        return [canon(e) for e in x]
    if isinstance(x, dict):
        return {str(k): canon(v) for k, v in sorted(x.items(), key=lambda kv: str(kv[0]))}
    return ["repr", type(x).__name__]


def digest(obj):
    return sha(json.dumps(obj, sort_keys=True, separators=(",", ":")))


def iso2dt(s):
    return datetime.datetime.fromisoformat(s)


def dt2iso(d):
    return d.isoformat()
