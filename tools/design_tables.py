#!/venv/bin/python
"""Prints the section-9 tables of DESIGN.md from seeded/*/meta.json and
evidence/selftest_sensitivity.json."""
import glob, json, os
HERE = os.path.dirname(os.path.dirname(os.path.realpath(__file__)))
RS = {}
rp = os.path.join(HERE, "seeded", "RECHECK.json")
if os.path.exists(rp):
    RS = json.load(open(rp))["results"]  # every change against the final machinery
RB = {}
rp = os.path.join(HERE, "benign", "RECHECK.json")
if os.path.exists(rp):
    RB = json.load(open(rp))["results"]
print("| seeded change | breaks | what it needs in order to manifest | caught by (quick check of the final machinery, violation class) |")
print("|---|---|---|---|")
for f in sorted(glob.glob(os.path.join(HERE, "seeded", "*", "meta.json"))):
    m = json.load(open(f))
    cls = []
    r = RS.get(m["name"])
    if r is not None:
        if r["violation"] and r.get("class"):
            cls.append("%s `%s`" % (r["property"], r["class"].split()[1].split("=", 1)[1]))
    else:
        for p in m.get("caught_by", []):
            for l in m["checks"][p]["lines"]:
                if l.startswith("violation class="):
                    cls.append("%s `%s`" % (p, l.split()[1].split("=", 1)[1]))
                    break
    hist = " *(%s)*" % m["history"] if m.get("history") else ""
    print("| %s | %s | %s%s | %s |" % (m["name"], m["property"], m.get("needs_to_manifest", ""), hist, "; ".join(cls) or "**missed**"))
print()
print("| benign change (must not alarm) | written for | checks run | alarms |")
print("|---|---|---|---|")
for f in sorted(glob.glob(os.path.join(HERE, "benign", "*", "meta.json"))):
    m = json.load(open(f))
    final = RB.get(m["name"])
    if final is not None:
        al = ", ".join(sorted(p for p, v in final.items() if v["exit"] != 0)) or "none"
        if m["alarms"]:
            al += " (first run: %s - assumptions of the machinery, corrected, section 9.3)" % ", ".join(m["alarms"])
    else:
        al = ", ".join(m["alarms"]) or "none"
    print("| %s | %s | %s | %s |" % (m["name"], m["property"], " ".join(sorted(m["checks"])), al))
print()
sp = os.path.join(HERE, "evidence", "selftest_sensitivity.json")
if os.path.exists(sp):
    print("| built-in mutant | property | what | 109 tests | check |")
    print("|---|---|---|---|---|")
    for r in json.load(open(sp)):
        v = r["violation_lines"][0].split()[1] if r["violation_lines"] else "-"
        print("| %s | %s | %s | %s | exit %d (%s) %s |" % (r["mutant"], r["property"], r["what"], "pass" if r["tests_pass"] else "fail",
              r["check_exit"], "expected" if r["check_exit"] == r["expected_exit"] else "UNEXPECTED", v))
