#!/venv/bin/python
"""Prints the section-9 tables of DESIGN.md from seeded/*/meta.json and
evidence/selftest_sensitivity.json."""
import glob, json, os
HERE = os.path.dirname(os.path.dirname(os.path.realpath(__file__)))
print("| seeded change | breaks | what it needs in order to manifest | caught by (quick check, violation class) |")
print("|---|---|---|---|")
for f in sorted(glob.glob(os.path.join(HERE, "seeded", "*", "meta.json"))):
    m = json.load(open(f))
    cls = []
    for p in m.get("caught_by", []):
        for l in m["checks"][p]["lines"]:
            if l.startswith("violation class="):
                cls.append("%s `%s`" % (p, l.split()[1].split("=", 1)[1]))
                break
    hist = " *(%s)*" % m["history"] if m.get("history") else ""
    print("| %s | %s | %s%s | %s |" % (m["name"], m["property"], m.get("needs_to_manifest", ""), hist, "; ".join(cls) or "**missed**"))
print()
print("| benign change (must not alarm) | written for | checks run | alarms |")
print("|---|---|---|---|")
for f in sorted(glob.glob(os.path.join(HERE, "benign", "*", "meta.json"))):
    m = json.load(open(f))
    print("| %s | %s | %s | %s |" % (m["name"], m["property"], " ".join(sorted(m["checks"])), ", ".join(m["alarms"]) or "none"))
print()
sp = os.path.join(HERE, "evidence", "selftest_sensitivity.json")
if os.path.exists(sp):
    print("| built-in mutant | property | what | 109 tests | check |")
    print("|---|---|---|---|---|")
    for r in json.load(open(sp)):
        v = r["violation_lines"][0].split()[1] if r["violation_lines"] else "-"
        print("| %s | %s | %s | %s | exit %d (%s) %s |" % (r["mutant"], r["property"], r["what"], "pass" if r["tests_pass"] else "fail",
              r["check_exit"], "expected" if r["check_exit"] == r["expected_exit"] else "UNEXPECTED", v))
