#!/venv/bin/python
"""Confirm a seeded change (patch + demo) in a scratch worktree and run the
labsim checks against it.  usage: eval_seeded.py <src_dir> <property> <name> [--all]

Writes /verif/seeded/<name>/{patch.diff,demo.py,notes.md,meta.json}.
The scratch worktree lives under /tmp and is removed afterwards; /repo itself
is never modified (checks are pointed at the scratch tree with VERIF_REPO,
which is the same code path as editing /repo's working tree)."""
import json, os, shutil, subprocess, sys, tempfile, time

VERIF = os.path.dirname(os.path.dirname(os.path.realpath(__file__)))
PY = "/venv/bin/python"


def sh(cmd, cwd=None, env=None, timeout=1200):
    p = subprocess.run(cmd, cwd=cwd, env=env, capture_output=True, text=True, timeout=timeout)
    return p.returncode, (p.stdout + p.stderr)


def main():
    src, prop, name = sys.argv[1:4]
    run_all = "--all" in sys.argv
    wt = tempfile.mkdtemp(prefix="ev_" + name + "_")
    os.rmdir(wt)
    rc, out = sh(["git", "-C", "/repo", "worktree", "add", "-q", "--detach", wt, "HEAD"])
    assert rc == 0, out
    meta = {"name": name, "property": prop, "source": "independent sub-agent given only the property text and a scratch worktree",
            "repo_head": sh(["git", "-C", "/repo", "rev-parse", "--short", "HEAD"])[1].strip()}
    try:
        os.makedirs(os.path.join(wt, "_out", "x"))
        for f in ("patch.diff", "demo.py", "notes.md"):
            if os.path.exists(os.path.join(src, f)):
                shutil.copy2(os.path.join(src, f), os.path.join(wt, "_out", "x", f))
        # demos may pin the worktree they were written in; point them at this one
        import re
        dp = os.path.join(wt, "_out", "x", "demo.py")
        src_txt = open(dp).read()
        new_txt = re.sub(r"/tmp/w[0-9t]+_C[0-9][0-9]", wt, src_txt)
        if new_txt != src_txt:
            open(dp, "w").write(new_txt)
            meta["demo_path_rewritten"] = "the author's worktree path inside demo.py was replaced by the scratch worktree for this confirmation"
        rc0, out0 = sh([PY, "_out/x/demo.py"], cwd=wt)
        meta["demo_on_clean_tree_exit"] = rc0
        rc, out = sh(["git", "apply", "_out/x/patch.diff"], cwd=wt)
        meta["patch_applies"] = rc == 0
        if rc != 0:
            print("patch does not apply:", out)
        rct, outt = sh([PY, "-m", "pytest", "-q", "-p", "no:cacheprovider"], cwd=wt)
        meta["tests_with_patch"] = (outt.strip().splitlines() or [""])[-1]
        meta["tests_pass_with_patch"] = rct == 0
        rc1, out1 = sh([PY, "_out/x/demo.py"], cwd=wt)
        meta["demo_with_patch_exit"] = rc1
        meta["demo_with_patch_output"] = out1.strip()[-600:]
        meta["confirmed"] = bool(rc0 == 0 and meta["patch_applies"] and rct == 0 and rc1 != 0)
        props = [prop] + ([p for p in ("C04", "C06", "C10", "C12", "C18") if p != prop] if run_all else [])
        meta["checks"] = {}
        scratch = tempfile.mkdtemp(prefix="ev_scr_")
        try:
            for p in props:
                env = dict(os.environ, VERIF_REPO=wt, LABSIM_EVIDENCE_DIR=os.path.join(scratch, "e"),
                           LABSIM_REPLAY_DIR=os.path.join(scratch, "r"))
                t0 = time.time()
                rc, out = sh([os.path.join(VERIF, "bin", "labsim"), "check", p, "--tier", "quick"], env=env)
                lines = [l for l in out.splitlines() if l.startswith(("violation class=", "runs=", "HARNESS", "regression"))]
                detail = [l for l in out.splitlines() if l.startswith("{")][:1]
                meta["checks"][p] = {"cmd": "VERIF_REPO=<scratch worktree with patch> bin/labsim check %s --tier quick" % p,
                                     "exit": rc, "wall_s": round(time.time() - t0, 1), "lines": lines,
                                     "first_violation_detail": (detail[0][:700] if detail else None)}
                print(name, p, "exit", rc, [l for l in lines if l.startswith("violation")][:2])
        finally:
            shutil.rmtree(scratch, ignore_errors=True)
        meta["caught_by"] = [p for p, r in meta["checks"].items() if r["exit"] == 1]
    finally:
        sh(["git", "-C", "/repo", "worktree", "remove", "--force", wt])
        shutil.rmtree(wt, ignore_errors=True)
    dst = os.path.join(VERIF, "seeded", name)
    os.makedirs(dst, exist_ok=True)
    for f in ("patch.diff", "demo.py", "notes.md"):
        if os.path.exists(os.path.join(src, f)):
            shutil.copy2(os.path.join(src, f), os.path.join(dst, f))
    old = {}
    if os.path.exists(os.path.join(dst, "meta.json")):
        old = json.load(open(os.path.join(dst, "meta.json")))
    if "needs_to_manifest" in old:
        meta["needs_to_manifest"] = old["needs_to_manifest"]
    json.dump(meta, open(os.path.join(dst, "meta.json"), "w"), indent=1)
    print(name, "confirmed=%s" % meta["confirmed"], "caught_by=%s" % meta["caught_by"])


main()
