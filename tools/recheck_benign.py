#!/venv/bin/python
"""Re-run ALL five quick checks on each benign (property-preserving) change with
the CURRENT machinery: none may alarm or break.
usage: recheck_benign.py [-j N] [name ...]

For every /verif/benign/<name>: scratch worktree of /repo under /tmp, apply
patch.diff, run `labsim check <p> --tier quick` for the five claimed properties
with VERIF_REPO pointing at the scratch tree, remove the worktree.  Writes
/verif/benign/RECHECK.json; /repo itself is never modified."""
import json, os, subprocess, sys, tempfile, time
from concurrent.futures import ThreadPoolExecutor

VERIF = os.path.dirname(os.path.dirname(os.path.realpath(__file__)))


def sh(cmd, cwd=None, env=None, timeout=1500):
    p = subprocess.run(cmd, cwd=cwd, env=env, capture_output=True, text=True, timeout=timeout)
    return p.returncode, (p.stdout + p.stderr)


def one(name, workers):
    d = os.path.join(VERIF, "benign", name)
    wt = tempfile.mkdtemp(prefix="rb_" + name + "_")
    os.rmdir(wt)
    rc, out = sh(["git", "-C", "/repo", "worktree", "add", "-q", "--detach", wt, "HEAD"])
    assert rc == 0, out
    scratch = tempfile.mkdtemp(prefix="rb_scr_")
    res = {}
    try:
        rc, out = sh(["git", "apply", os.path.join(d, "patch.diff")], cwd=wt)
        assert rc == 0, out
        env = dict(os.environ, VERIF_REPO=wt, LABSIM_EVIDENCE_DIR=os.path.join(scratch, "e"),
                   LABSIM_REPLAY_DIR=os.path.join(scratch, "r"), LABSIM_WORKERS=str(workers))
        for prop in ("C04", "C06", "C10", "C12", "C18"):
            t0 = time.time()
            rc, out = sh(["timeout", "300", os.path.join(VERIF, "bin", "labsim"), "check", prop, "--tier", "quick"],
                         cwd=VERIF, env=env)
            runs = [l for l in out.splitlines() if l.startswith("runs=")]
            res[prop] = {"exit": rc, "runs": (runs[0].split()[0] if runs else None), "wall_s": round(time.time() - t0, 1),
                         "tail": (None if rc == 0 else out.strip()[-400:])}
        return name, res
    finally:
        sh(["git", "-C", "/repo", "worktree", "remove", "--force", wt])
        sh(["rm", "-rf", scratch])


def main():
    args = sys.argv[1:]
    j = 4
    if args[:1] == ["-j"]:
        j = int(args[1])
        args = args[2:]
    names = args or sorted(n for n in os.listdir(os.path.join(VERIF, "benign"))
                           if os.path.exists(os.path.join(VERIF, "benign", n, "patch.diff")))
    workers = max(2, 16 // j)
    res = {}
    with ThreadPoolExecutor(j) as ex:
        for name, r in ex.map(lambda n: one(n, workers), names):
            res[name] = r
            print(name, {p: v["exit"] for p, v in r.items()}, flush=True)
    outp = os.path.join(VERIF, "benign", "RECHECK.json")
    old = {}
    if args and os.path.exists(outp):
        old = json.load(open(outp)).get("results", {})
    old.update(res)
    alarms = sorted("%s/%s" % (n, p) for n, r in old.items() for p, v in r.items() if v["exit"] != 0)
    summary = {"changes": len(old), "check_runs": sum(len(r) for r in old.values()), "alarms_or_breakage": alarms}
    json.dump({"tier": "quick", "summary": summary, "results": old}, open(outp, "w"), indent=1, sort_keys=True)
    print(json.dumps(summary))


if __name__ == "__main__":
    main()
