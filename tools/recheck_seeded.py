#!/venv/bin/python
"""Re-run the quick check(s) that caught each seeded change against the CURRENT
machinery (regression test of the machinery itself after generator changes).
usage: recheck_seeded.py [-j N] [name ...]

For every /verif/seeded/<name>: scratch worktree of /repo under /tmp, apply
patch.diff, run `labsim check <p> --tier quick` for the first property in
meta["caught_by"] (or the change's own property when no tier caught it) with
VERIF_REPO pointing at the scratch tree, remove the worktree.  Writes
/verif/seeded/RECHECK.json; /repo itself is never modified."""
import json, os, subprocess, sys, tempfile, time
from concurrent.futures import ThreadPoolExecutor

VERIF = os.path.dirname(os.path.dirname(os.path.realpath(__file__)))


def sh(cmd, cwd=None, env=None, timeout=1500):
    p = subprocess.run(cmd, cwd=cwd, env=env, capture_output=True, text=True, timeout=timeout)
    return p.returncode, (p.stdout + p.stderr)


def one(name, workers):
    d = os.path.join(VERIF, "seeded", name)
    meta = json.load(open(os.path.join(d, "meta.json")))
    caught = meta.get("caught_by") or []
    prop = caught[0] if caught else meta["property"]
    wt = tempfile.mkdtemp(prefix="rc_" + name + "_")
    os.rmdir(wt)
    rc, out = sh(["git", "-C", "/repo", "worktree", "add", "-q", "--detach", wt, "HEAD"])
    assert rc == 0, out
    scratch = tempfile.mkdtemp(prefix="rc_scr_")
    try:
        rc, out = sh(["git", "apply", os.path.join(d, "patch.diff")], cwd=wt)
        assert rc == 0, out
        env = dict(os.environ, VERIF_REPO=wt, LABSIM_EVIDENCE_DIR=os.path.join(scratch, "e"),
                   LABSIM_REPLAY_DIR=os.path.join(scratch, "r"), LABSIM_WORKERS=str(workers))
        t0 = time.time()
        rc, out = sh(["timeout", "300", os.path.join(VERIF, "bin", "labsim"), "check", prop, "--tier", "quick"],
                     cwd=VERIF, env=env)
        viol = [l for l in out.splitlines() if l.startswith("VIOLATION")]
        cls = [l for l in out.splitlines() if l.startswith("violation class=")]
        return name, {"property": prop, "exit": rc, "violation": bool(viol) and rc == 1,
                      "class": (cls[0][:160] if cls else None), "wall_s": round(time.time() - t0, 1),
                      "caught_before": bool(caught)}
    finally:
        sh(["git", "-C", "/repo", "worktree", "remove", "--force", wt])
        sh(["rm", "-rf", scratch])


def main():
    args = sys.argv[1:]
    j = 4
    if args[:1] == ["-j"]:
        j = int(args[1])
        args = args[2:]
    names = args or sorted(n for n in os.listdir(os.path.join(VERIF, "seeded"))
                           if os.path.exists(os.path.join(VERIF, "seeded", n, "meta.json")))
    workers = max(2, 16 // j)
    res = {}
    with ThreadPoolExecutor(j) as ex:
        for name, r in ex.map(lambda n: one(n, workers), names):
            res[name] = r
            print(name, r["property"], "exit", r["exit"], "CAUGHT" if r["violation"] else "missed", r["wall_s"], flush=True)
    outp = os.path.join(VERIF, "seeded", "RECHECK.json")
    old = {}
    if args and os.path.exists(outp):
        old = json.load(open(outp)).get("results", {})
    old.update(res)
    summary = {"caught": sum(1 for r in old.values() if r["violation"]), "total": len(old),
               "harness_or_other_exit": sorted(n for n, r in old.items() if r["exit"] not in (0, 1)),
               "missed": sorted(n for n, r in old.items() if not r["violation"])}
    json.dump({"tier": "quick", "summary": summary, "results": old}, open(outp, "w"), indent=1, sort_keys=True)
    print(json.dumps(summary))


if __name__ == "__main__":
    main()
