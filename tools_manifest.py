#!/venv/bin/python
"""Regenerates MANIFEST.json from one table (kept valid at all times)."""
import json, os, sys
HERE = os.path.dirname(os.path.realpath(__file__))

NA = {
 "C01": "pure function of (labels, options): separation constraints are rebuilt from the layer list on every call; no schedule, clock, fault or history can change its truth (history-independence of the inputs to that step is C06). Deterministic simulation has nothing to inject; DESIGN.md section 5.",
 "C02": "least-squares optimality quantifies over alternative placements of one input; the only history-sensitive ingredient (stale stub as target) is decided by C06's differential oracle. An isotonic-regression oracle over sampled inputs would be property-based testing, not simulation; DESIGN.md section 5.",
 "C03": "pure function of (labels, bounds), as C01; no seam on the anchored path; DESIGN.md section 5.",
 "C05": "a Solver is built, solved and discarded inside one call; no seam (time, I/O, shared state, interleaving) touches it; DESIGN.md section 5.",
 "C07": "export() geometry is a function of (data, options); its only outside dependencies are the shared default scale (that is C10) and the time zone (C18); DESIGN.md section 5.",
 "C08": "pure geometry of one export; no schedule, fault or clock in it; DESIGN.md section 5.",
 "C09": "agreement of two pure emitters on one input; no schedule, fault or clock in it; DESIGN.md section 5.",
 "C11": "totality over the input domain; the recursion-limit failure it mentions is a deterministic function of cluster size, not an injectable fault that comes and goes; DESIGN.md section 5.",
 "C13": "pure arithmetic function of (domain, count); DESIGN.md section 5.",
 "C14": "pure arithmetic function of (domain, count); DESIGN.md section 5.",
 "C15": "pure under a fixed zone; its dependence on the zone is exactly what C18 decides; DESIGN.md section 5.",
 "C16": "pure calendar function of (domain, count); DESIGN.md section 5.",
 "C17": "pure calendar function of (instant, unit, k); DESIGN.md section 5.",
 "C19": "pure string function; DESIGN.md section 5.",
 "C20": "pure integer/string functions over a finite enumeration; DESIGN.md section 5.",
}

CHECKS = {}

def check(pid, sim, design_ref, text, note, technique, qt=170, tt=1500):
    CHECKS[pid] = {
        "property_id": pid,
        "quick_cmd": "timeout %d bin/labsim check %s --tier quick" % (qt, pid),
        "thorough_cmd": "timeout %d bin/labsim check %s --tier thorough" % (tt, pid),
        "evidence_file": "evidence/%s.json" % pid,
        "replay_cmd_template": "bin/labsim replay {path}",
        "engine": "labsim-" + sim,
        "level_claimed": {"category": "exploration", "text": text, "design_ref": design_ref},
        "level_note": note,
        "technique": technique,
    }

ENABLED = [l.strip() for l in open(os.path.join(HERE, "claimed.txt")) if l.strip()]

check("C18", "zone", "DESIGN.md 4.4",
      "Seeded search over (time domain, workload, zone rule) triples: the real time code runs in a pristine forked child under UTC and again under a simulated zone (tzdata or synthetic POSIX rule whose DST gap/fold is placed inside the workload's own domain); outcome lists must be identical. Sampling, not proof; the evidence reports which offsets, gaps and folds were actually met.",
      "Trusts glibc tzset()/localtime in a forked child to equal process start-up (cross-checked against real subprocesses by `labsim selftest tzexec` and on a sample in the thorough tier); fold attribute of results not compared; input space sampled.",
      "deterministic simulation of the local-time seam: clock-offset and DST-jump injection, differential against a UTC reference run")
check("C12", "scale", "DESIGN.md 4.3",
      "Seeded histories of domain/range/clamp/nice/copy/drop calls (plus rejected calls as faults) over a pool of up to 5 aliased LinearScale objects; after every operation every scale is checked against a rational reference model built from its reported state (end points exact, affine, invertible, clamped) and every non-target scale must be unchanged (copy isolation).",
      "Input magnitudes sampled (1e-6..1e9); float tolerance 64 ulp-scaled for affinity, exact equality for end points; the caller (simulator) never mutates lists it passed or received.",
      "deterministic simulation of operation histories over aliased objects with rejected-call fault injection, checked against an executable reference model after every step")
check("C06", "engine", "DESIGN.md 4.1",
      "Seeded histories over up to 3 engines and 3 label sets (re-compute, re-configure, permute, hand labels from one engine to another, stale positions/layers/stubs) with injected aborted compute() calls (exception at the k-th executed line, genuine RecursionError from a lowered stack budget); after every completed compute the (position,width)->(layer,position) multiset must equal that of a fresh engine on fresh labels computed in a pristine forked child.",
      "Label/option space sampled by the swarm generator; an aborted call is modelled as a producer of stale state and the next completed call is judged; line-level abort points are those inside /repo/labella only.",
      "deterministic simulation of call histories with abort/stack-exhaustion/stale-state fault injection, differential against an isolated fresh-process reference")
check("C04", "engine", "DESIGN.md 4.1",
      "Same simulated histories and faults as C06; after every completed compute()/distribute() a structural model of the property (label conservation by identity, contiguous layers, complete stub chains with payload/position/width, no foreign items, capacity rule, and that getLayers() reports exactly this layering) is evaluated on the engine's reported state.",
      "Label/option space sampled; budget comparisons use a 1e-9 relative guard band; trailing empty layers from algorithm `simple` are tolerated.",
      "deterministic simulation of call histories with abort/stale-state fault injection, state invariant checked after every step")
check("C10", "timeline", "DESIGN.md 4.2",
      "Seeded interleavings of construct/export/export-to-file/replace operations over 2-4 timeline slots with simulated clock, in-memory disk and scripted latexmk, including disk errors, torn writes, peer failures and clock jumps; every export's document must equal the document of the same spec constructed and exported alone in a pristine forked child, and re-exports must be identical.",
      "Operation-level interleaving (the property's own quantifier), not line-level pre-emption; disk and latexmk are stubs; specs are deep-copied so slots share nothing by construction.",
      "deterministic simulation of multi-instance interleavings with disk/peer/clock fault injection, differential against an isolated fresh-process reference")

manifest = {
 "version": 1,
 "setup_cmd": "bin/setup",
 "hooks": {
   "guard": "LABELLA_PY_VERIF",
   "enable": "no hook exists in /repo: every seam (TZ/tzset, labella.timeline.datetime/open, labella.tex.subprocess/tempfile/shutil/open, sys.settrace, recursion limit) is taken over from outside inside forked children; the guard variable is reserved and unused",
   "baseline_off_cmd": "cd /repo && /venv/bin/python -m pytest -ra -q -p no:cacheprovider --timeout=900 --continue-on-collection-errors",
   "source_commits": [],
   "add_only": True,
 },
 "engines": [
   {"name": "labsim-zone", "path": "labsim/sims/zone.py", "serves_properties": ["C18"], "kind_free_text": "deterministic simulation, time-zone/DST seam"},
   {"name": "labsim-scale", "path": "labsim/sims/scale.py", "serves_properties": ["C12"], "kind_free_text": "deterministic simulation, aliased-object histories"},
   {"name": "labsim-engine", "path": "labsim/sims/engine.py", "serves_properties": ["C04", "C06"], "kind_free_text": "deterministic simulation, engine histories with abort faults"},
   {"name": "labsim-timeline", "path": "labsim/sims/timeline.py", "serves_properties": ["C10"], "kind_free_text": "deterministic simulation, multi-instance interleavings with disk/peer/clock faults"},
 ],
 "checks": [CHECKS[p] for p in ENABLED],
 "not_applicable": [{"property_id": k, "reason": v} for k, v in sorted(NA.items())]
   + [{"property_id": p, "reason": "claimed in DESIGN.md; its simulation is not built yet in this commit"} for p in sorted(CHECKS) if p not in ENABLED],
 "notes": "All checks: `bin/labsim check <id> --tier quick|thorough` (exit 0 held / 1 VIOLATION line / 2 harness error). VERIF_SEED and VERIF_TIER are honoured; VERIF_REPO overrides /repo. Replay: `bin/labsim replay <file>`. Self-tests: `bin/labsim selftest determinism|sensitivity|tzexec`. Known findings: known_findings.json.",
}
manifest["engines"] = [e for e in manifest["engines"] if any(p in ENABLED for p in e["serves_properties"])]
with open(os.path.join(HERE, "MANIFEST.json"), "w") as f:
    json.dump(manifest, f, indent=1)
    f.write("\n")
print("MANIFEST.json written: claimed", ENABLED)
